package main

func init() {
	addProperty(&Property{
		ID:         "C18",
		Title:      "Every enumerated keyword maps back to the value that printed it",
		Decided:    "for all declared values of all enum types (exhaustive): String table defines a keyword, FromString maps it back to the same value, keywords are injective (ENUM-TAB); the keyword is a terminal the llir/ll lexer can produce (ENUM-LEX); flag-set printers enumerate exactly the single-bit members between First and Last (ENUM-FLAGS); each FromString is applied to the matching AST keyword node (ENUM-USE); flag-set printers test the empty set first, on the unmodified set (ENUM-FLAGS); no function that converts between keywords and enum values keeps process-level state such as a shared keyword cache (DET-2 restricted to functions with an enum type in their signature); hand-written keyword tables agree with the generated ones (ENUM-HAND); an enum-valued debug-info field is omitted from the text only at its zero value (MD-OMIT, enum fields), and so is every enum-valued field of a global, function, call or memory instruction: its guard holds for every declared non-zero member (ENUM-OMIT); the translators of flag keyword lists (fast-math, overflow) store one flag per keyword (LIST-1TO1 restricted to them).",
		NotDecided: "all subsets of the flag types beyond the structure of the set printers; acceptance of each keyword by LLVM itself.",
		Rules:      []RuleUse{{Rule: "ENUM-TAB"}, {Rule: "ENUM-LEX"}, {Rule: "ENUM-FLAGS"}, {Rule: "ENUM-USE"}, {Rule: "DET-2", Filter: tag("enum"), Floor: 1}, {Rule: "ENUM-HAND", Filter: notTag("types"), Floor: 1}, {Rule: "MD-OMIT", Filter: tag("enum"), Floor: 10}, {Rule: "ENUM-OMIT"}, {Rule: "LIST-1TO1", Filter: keyHas("Flags"), Floor: 1}},
	})
	addProperty(&Property{
		ID:         "C19",
		Title:      "WriteTo honours the io.WriterTo contract, also when the writer fails",
		Decided:    "all module output passes the counting, error-latching wrapper: the caller's writer reaches only the wrapper (W-1), each wrapper method suppresses writes after an error, performs one fmt.Fprint* and records its count and error (W-2), WriteTo returns the wrapper's totals on every return (W-3), nobody else touches the wrapper's state (W-4), String() is WriteTo on a builder (W-5).",
		NotDecided: "that fmt.Fprint* issues a single Write and returns its (n, err) faithfully (trusted standard-library behaviour); byte-level equality of delivered prefixes for every failure offset.",
		Rules:      []RuleUse{{Rule: "W-1"}, {Rule: "W-2"}, {Rule: "W-3"}, {Rule: "W-4"}, {Rule: "W-5"}},
	})
	addProperty(&Property{
		ID:         "C01",
		Title:      "Parse then print preserves the meaning of every accepted module",
		Decided:    "over every construct of the translator and printers: each grammar alternative is dispatched or rejected with an error, never a panic or silent skip (EXH, SIB); scaffold and fill translators agree on the IR type per AST node (PAIR); every syntax accessor of every handled AST node is read and used (ACC) and lands in the like-named IR field (FLOW); every IR field the parser allocates is filled (FLD-W) and every IR field is read by its printer (FLD-P), in grammar order (ORD), under the right opcode keyword (OPC); errors of the translator's own functions are returned, never dropped or turned into panics (ERR), and never accompanied by a module (NILMOD); no success return of a translator precedes an unconditional store to a field of the object being filled (EARLY-RET); a name the printer omits as default is the default the translator substitutes (ELIDE); a debug-info field is omitted only at the zero value the translator leaves for an absent field (MD-OMIT); the result type attached to a parsed getelementptr considers every index and keeps the address space (GEP-RES, GEP-VLEN); literal constants are built only by the literal readers (LIT-CTOR); quoted digit strings are names (ENC-CLASS); the result type the translator attaches to an instruction is the one the library computes for it, so uses print with the type the definition has (TYP-AGREE); enum-valued fields are omitted only at the value the translator substitutes (ENUM-OMIT); sibling alternatives of a scaffold dispatcher apply the same setters (SIB-SET); no field translator depends on the order of `key: value` fields in the input (FLD-LOOP); every spelling the literal printers emit is read back by the literal readers with the same value (LIT-INT-TAB, LIT-FP-TAB); a loop that translates a list of AST nodes stores one element per element, so nothing is skipped, merged or de-duplicated away (LIST-1TO1; duplicates of set-valued lists dropped through an exact membership map are exempt).",
		NotDecided: "that the printed text means the same to LLVM at the level of values (literal formatting is C09/C10/C11); crashes guarded by data conditions.",
		Rules:      []RuleUse{{Rule: "EXH"}, {Rule: "SIB"}, {Rule: "PAIR"}, {Rule: "ACC"}, {Rule: "FLOW"}, {Rule: "FLD-W"}, {Rule: "FLD-P"}, {Rule: "ORD"}, {Rule: "OPC"}, {Rule: "ERR"}, {Rule: "NILMOD"}, {Rule: "EARLY-RET"}, {Rule: "ELIDE"}, {Rule: "MD-OMIT"}, {Rule: "GEP-RES"}, {Rule: "GEP-VLEN"}, {Rule: "LIT-CTOR"}, {Rule: "ENC-CLASS"}, {Rule: "SCAF-NAME"}, {Rule: "TYP-AGREE"}, {Rule: "ENUM-OMIT"}, {Rule: "SIB-SET"}, {Rule: "FLD-LOOP"}, {Rule: "LIT-INT-TAB"}, {Rule: "LIT-FP-TAB"}, {Rule: "LIST-1TO1"}},
	})
	addProperty(&Property{
		ID:         "C03",
		Title:      "IR built through the constructors prints to valid, faithful LLVM assembly",
		Decided:    "every constructor parameter is stored, same-typed parameters in the like-named field (CTOR-1); lazily cached result types are computed in the constructor (CTOR-2); every builder method forwards its parameters in order to the like-named constructor, stores the result once, sets Parent and returns it (CTOR-3); every field is read by its printer (FLD-P) in grammar order (ORD) under the right opcode (OPC); the getelementptr constructors compute their result type through the shared walk with the vector length of every index taken from the index type (GEP-WALK, GEP-VLEN on ir and ir/constant); unnamed values are numbered in the order they are printed (NUM-ORDER); the shared gep walk examines every index and keeps the address space (GEP-RES); parameter-list printers write `...` whenever the type is variadic (ELLIPSIS); constructor type checks compare the operands' own types, not synthesised ones (CTOR-CHK); printing and the type / identifier queries cache nothing in the IR beyond IDs and result types, so the text does not depend on when during construction a query was made (OBS-1). Every printer numbers unconditionally before it prints, so declarations and definitions alike never print two unnamed values under one number (NUM-FIRST). Constants built through the API are spelled by the same literal printers, whose tables agree with the readers and with LLVM's layout of the hexadecimal forms (LIT-INT-TAB, LIT-FP-TAB).",
		NotDecided: "acceptance of the text by LLVM, execution results, structural identity after re-parsing, and that a constructor's own type check never rejects a well-typed operand beyond the structural clause of CTOR-CHK.",
		Rules: []RuleUse{{Rule: "CTOR-1"}, {Rule: "CTOR-2"}, {Rule: "CTOR-3"}, {Rule: "FLD-P"}, {Rule: "ORD"}, {Rule: "OPC"},
			{Rule: "GEP-WALK", Filter: keyPrefix("ir.", "ir/constant."), Floor: 4}, {Rule: "GEP-VLEN", Filter: keyPrefix("ir.", "ir/constant."), Floor: 2}, {Rule: "NUM-ORDER"}, {Rule: "GEP-RES"}, {Rule: "ELLIPSIS"}, {Rule: "CTOR-CHK"}, {Rule: "OBS-1"}, {Rule: "NUM-FIRST"}, {Rule: "LIT-FP-TAB"}, {Rule: "LIT-INT-TAB"}},
	})
	addProperty(&Property{
		ID:         "C15",
		Title:      "Operand and successor views are complete and live",
		Decided:    "every value.Value slot reachable from an instruction or terminator (through operand-carrier structs and slices) has its address returned by Operands() (OPS-1); every returned element is the address of a slot rooted at the pointer receiver (OPS-2); Succs() reads every constructor-filled target field in order (OPS-3); both views are pure — no cached state that can go stale (OPS-4, SSA write effects). Operand-holding parts (bundles, cases, incomings, clauses) are never cached by the translator, so two instructions never share operand slots (OPS-SHARE).",
		NotDecided: "that a replacement through *ir.Arg-wrapped argument slots is found by a client comparing *slot == old; that all successors are blocks of the same function for constructed IR.",
		Rules:      []RuleUse{{Rule: "OPS-1"}, {Rule: "OPS-2"}, {Rule: "OPS-3"}, {Rule: "OPS-4"}, {Rule: "OPS-SHARE"}},
	})
	addProperty(&Property{
		ID:         "C16",
		Title:      "Type equality is a structural equivalence matching LLVM type identity",
		Decided:    "each kind's Equal reads every identity field on both sides (EQ-1), guards on the argument's kind and returns false otherwise (EQ-2, necessary for symmetry), and the struct kind cuts recursion at type names before descending into fields (EQ-3, necessary for termination); every field of every type kind is printed (FLD-P on ir/types) and read back (ACC/FLOW on the type translators), which equality through print/parse relies on. Equal on pointer types compares printed text, so no type printer may cache its text in the type (OBS-1 restricted to ir/types: expected instances none).",
		NotDecided: "transitivity as such; that the pointer kind's comparison of printed forms coincides with structure for all element types; preservation by print/parse beyond field coverage.",
		Rules:      []RuleUse{{Rule: "EQ-1"}, {Rule: "EQ-2"}, {Rule: "EQ-3"}, {Rule: "FLD-P", Filter: tag("types"), Floor: 15}, {Rule: "FLOW", Filter: tag("types"), Floor: 10}, {Rule: "EARLY-RET", Filter: tag("types"), Floor: 5}, {Rule: "ENUM-HAND", Filter: tag("types"), Floor: 1}, {Rule: "OBS-1", Filter: keyHas("ir/types.")}},
	})
	addProperty(&Property{
		ID:         "C05",
		Title:      "Undefined or doubly defined names are reported as errors",
		Decided:    "no unchecked lookup in an index of definitions (LK-1); every lookup of a decoded identifier returns an error on a miss and the found object on a hit (LK-2); every insertion into an index is guarded by a duplicate test that always errors (DUP); errors of translator functions are propagated, never panicked or dropped (ERR); an error never comes with a module (NILMOD); the table of a function's locals is created fresh per function and never replaced or shared, so a name another function defined cannot satisfy a lookup (SCOPE); the exact exception a duplicate test lets through is part of the construct, so a recorded exception does not hide another one (DUP). Duplicate or out-of-order explicit %N / @N are rejected by the numbering routine the parser relies on: its failing condition is `current != 0 && current != position` (NUM-VALID).",
		NotDecided: "reference sites that never reach a lookup at all (e.g. names only used by constructs the IR does not model); blockaddress placeholders (covered under C04 by TODO).",
		Rules:      []RuleUse{{Rule: "LK-1"}, {Rule: "LK-2"}, {Rule: "DUP"}, {Rule: "ERR"}, {Rule: "NILMOD"}, {Rule: "TODO"}, {Rule: "PHASE"}, {Rule: "SCOPE"}, {Rule: "NUM-VALID"}},
	})
	addProperty(&Property{
		ID:         "C12",
		Title:      "Translation is deterministic",
		Decided:    "every range over a map in the translator and printer is collect-then-sort or has a commutative body (DET-1, all instances, closed over the call graph); nothing reachable from Parse* or printing writes package-level state in llir/llvm, llir/ll or mewmew/float (DET-2); every entry point funnels into ParseString → translate (DET-3); every emitted list is in sorted or recorded textual order (ORD-SORT); no IR object is allocated with a lazily computed type cache, whose first computation during translation would freeze a value that depends on which entity the map iteration reaches first (RACE-3, CACHE-ORDER); no module data aliases caller-owned memory (NO-UNSAFE: ParseBytes copies); the library starts no goroutine, so one parse is one sequential computation (NO-GO). The cached type of a global-entity scaffold is final at creation, so what another entity sees when it takes that type does not depend on the map order in which bodies are translated (SCAF-TYPE).",
		NotDecided: "totality of the natural-sort comparison on which sorted results rely (see C20); determinism of the generated LALR parser beyond writing no package-level state; per-entity objects shared between two map iterations (type-based commutativity argument).",
		Technique:  "static analysis: SSA write-effect summaries closed over the VTA call graph (freshness, singleton-type classification) + go/ast idiom rules for map ranges (DET-1, DET-2, DET-3, ORD-SORT)",
		Rules:      []RuleUse{{Rule: "DET-1"}, {Rule: "DET-2"}, {Rule: "DET-3"}, {Rule: "ORD-SORT"}, {Rule: "RACE-3"}, {Rule: "CACHE-ORDER"}, {Rule: "NO-UNSAFE"}, {Rule: "NO-GO"}, {Rule: "SCAF-TYPE"}},
	})
	addProperty(&Property{
		ID:         "C13",
		Title:      "A module can be printed from many goroutines at once",
		Decided:    "the only shared memory printing can write (String, WriteTo, LLString, Ident, Type, Name and everything reachable) is the ID fields and lazily cached result types — every other write is to memory allocated by the same call (RACE-1); every ID store happens under the owner's mutex and only when the ID changes or is unassigned, so printers of an already numbered object do not write (RACE-2); every allocation site of a type with a lazy result-type cache fills the cache before the value escapes, so the cache write is dead (RACE-3, CTOR-2).",
		NotDecided: "the first, numbering print racing with lock-free readers in other goroutines (cross-object reads such as a blockaddress of a not yet numbered block of another function); equality of the texts returned by concurrent calls as such.",
		Technique:  "static analysis: SSA write-effect closure over the VTA call graph with interprocedural freshness (lockset/guard argument), plus go/ast rules for the lock prologue and change guard (RACE-1, RACE-2, RACE-3)",
		Rules:      []RuleUse{{Rule: "RACE-1"}, {Rule: "RACE-2"}, {Rule: "RACE-3"}, {Rule: "CTOR-2"}, {Rule: "NO-GO"}},
	})
	addProperty(&Property{
		ID:         "C14",
		Title:      "Observing the IR never changes it",
		Decided:    "observers (printing, Type, Ident, Operands, Succs, Sig, ID, IsUnnamed, MDAttachments) write no shared memory other than ID fields and result-type caches — no observer sorts, appends to or normalises an IR field (OBS-1); result-type caches are already filled when an observer runs (RACE-3); no numbering routine fails depending on IDs an earlier observation assigned (OBS-4); renaming clears the ID (OBS-5).",
		NotDecided: "equality of the final texts for every history as such.",
		Technique:  "static analysis: SSA write-effect closure from the observer entry points + go/ast rules on the numbering routines (OBS-1, OBS-4, OBS-5, RACE-3)",
		Rules:      []RuleUse{{Rule: "OBS-1"}, {Rule: "OBS-4"}, {Rule: "OBS-5"}, {Rule: "RACE-3"}, {Rule: "MD-ASSIGN"}},
	})
	addProperty(&Property{
		ID:         "C20",
		Title:      "Definitions are printed in a canonical, input-order-independent order",
		Decided:    "every list the printer emits is filled from keys sorted by the stated comparator (natural order for types, comdats, named metadata; ascending numeric for attribute groups and metadata) or from the recorded textual order of globals, and WriteTo emits each list by an in-order range (ORD-SORT); every map range is collect-then-sort or commutative (DET-1).",
		NotDecided: "that natsort.Less is a strict total order comparing digit runs numerically — an order-axiom statement over all strings that no structural rule establishes; the property's first sentence is therefore NOT decided.",
		Rules:      []RuleUse{{Rule: "ORD-SORT"}, {Rule: "DET-1"}, {Rule: "NAT-WIDTH"}},
	})
	addProperty(&Property{
		ID:         "C17",
		Title:      "Metadata IDs are unique and references share node identity",
		Decided:    "all 29 node types print numbered nodes by ID and inline nodes in place (MD-IDENT); every node the parser allocates is either inline (ID -1) or gets its definition's ID (MD-INLINE); fill translators fill the scaffold object that references resolve to and allocate only for inline nodes (MD-SCAF, PAIR); !N references resolve through one checked lookup (LK-2) and duplicate !N definitions are rejected (DUP); named metadata is merged by append in textual order (MD-MERGE); the printer records every explicit ID before it hands out the first new one, assigns only unused IDs, to unassigned nodes, before writing (MD-ASSIGN; RACE-2 md-tagged: SetID only on nodes whose ID differs); per debug-info field: grammar key ↔ printed field ↔ translator agree (MD-KEY) and the dispatch/coverage rules hold on the metadata translators and printers (EXH, ACC, FLOW, FLD-W, FLD-P restricted to metadata). Sibling alternatives of the definition scaffold apply the same setters, so `distinct` is kept for every node kind (SIB-SET); no field loop reads a field that another `key: value` alternative of the same loop writes (FLD-LOOP); lists of metadata nodes, fields and attachments are translated one element per element, so a node listed twice stays listed twice (LIST-1TO1, metadata).",
		NotDecided: "the arithmetic of the ID counter (smallest unused numbers as such); identity through paths the rules do not model (nodes copied by value).",
		Rules: []RuleUse{{Rule: "MD-IDENT"}, {Rule: "MD-INLINE"}, {Rule: "MD-SCAF"}, {Rule: "MD-KEY"}, {Rule: "MD-MERGE"}, {Rule: "MD-ASSIGN"},
			{Rule: "PAIR", Filter: tag("md"), Floor: 25}, {Rule: "LK-2", Filter: tag("md"), Floor: 1}, {Rule: "DUP", Filter: tag("md"), Floor: 1},
			{Rule: "EXH", Filter: tag("md"), Floor: 200}, {Rule: "ACC", Filter: tag("md"), Floor: 120}, {Rule: "FLOW", Filter: tag("md"), Floor: 150},
			{Rule: "FLD-W", Filter: tag("md"), Floor: 200}, {Rule: "FLD-P", Filter: tag("md"), Floor: 200}, {Rule: "RACE-2", Filter: keyHas("MetadataIDs"), Floor: 1}, {Rule: "EARLY-RET", Filter: tag("md"), Floor: 2},
			{Rule: "SIB-SET", Filter: tag("md"), Floor: 1}, {Rule: "FLD-LOOP", Filter: tag("md"), Floor: 15}, {Rule: "LIST-1TO1", Filter: tag("md"), Floor: 4}},
	})
	addProperty(&Property{
		ID:         "C04",
		Title:      "Every reference in a parsed module is the object that defines it",
		Decided:    "every definition object the parser allocates flows into a registering index or container, and nothing but the blockaddress placeholder is allocated outside that discipline (ALLOC, SSA value flow); the placeholder is queued, the queue is drained before the module is returned and the fixer installs a block of the function itself or fails (TODO); uses obtain the looked-up object itself, or an error (LK-2, LK-1); locals resolve only in their own function's table (SCOPE); every index is completely filled before any step consults it (PHASE); parent links are set at creation by the parser (PARENT) and by the builder API (CTOR-3). Operand-holding parts of instructions are not shared between instructions (OPS-SHARE). A parent link assigned after construction is assigned on every success path (EARLY-RET restricted to stores into a Parent field).",
		NotDecided: "identity along paths the flow rules do not model (objects copied by value).",
		Technique:  "static analysis: SSA value-flow of allocation sites to registering sinks over the VTA call graph, call-graph phase ordering, go/ast idiom rules (ALLOC, TODO, SCOPE, PHASE, PARENT, LK-1, LK-2)",
		Rules: []RuleUse{{Rule: "ALLOC"}, {Rule: "IDX-ONCE"}, {Rule: "TODO"}, {Rule: "SCOPE"}, {Rule: "PHASE"}, {Rule: "PARENT"}, {Rule: "LK-1"}, {Rule: "LK-2"}, {Rule: "ENC-CLASS"}, {Rule: "SCAF-NAME"},
			{Rule: "CTOR-3"}, {Rule: "OPS-SHARE"}, {Rule: "EARLY-RET", Filter: keyHas(".Parent")}},
	})
	addProperty(&Property{
		ID:         "C06",
		Title:      "Result types agree with LLVM's typing rules, in parser and IR alike",
		Decided:    "for every lazily typed instruction, terminator and constant-expression kind, the parser's precomputed result type and the library's Type() normalise to the same symbolic term over operand types, syntactic components, assertions, selections and type constructors, and constant expressions agree with the instruction of the same opcode (TYP-AGREE; call/invoke/callbr/phi/alloca are compared by the stated LLVM axiom and exempt); vector result types keep the scalability of the vector type their length comes from, on every site in parser, instructions, constant expressions and the gep walk (TYP-1); the parser never caches a result type before the fields it is computed from are set (CACHE-ORDER); every lazily typed value is typed at creation by constructors and parser, which numbering and printing rely on (RACE-3, CTOR-2); getelementptr types come from one shared walk (GEP-WALK).",
		NotDecided: "that the common term equals LLVM's typing rule when both sides are wrong in the same way (only TYP-1 and the listed axioms encode LLVM facts); kinds whose type is not lazily computed (casts, load, va_arg, landingpad: the type is a syntactic field copied verbatim, covered by FLOW).",
		Rules:      []RuleUse{{Rule: "TYP-AGREE"}, {Rule: "TYP-1"}, {Rule: "CACHE-ORDER"}, {Rule: "RACE-3"}, {Rule: "CTOR-2"}, {Rule: "GEP-WALK"}, {Rule: "GEP-VLEN"}, {Rule: "GEP-SIB"}, {Rule: "GEP-RES"}},
	})
	addProperty(&Property{
		ID:         "C07",
		Title:      "getelementptr result types are computed correctly and consistently",
		Decided:    "gep.ResultType is the only producer of gep result types and is fed only by the index-list wrappers (GEP-WALK); every wrapper derives each index's vector length and scalability from the index operand's type for every index form (GEP-VLEN); the three index classifiers classify corresponding constant kinds alike (GEP-SIB) and cover every constant kind the grammar allows or fall back without panicking (EXH on the classifiers); the walk carries scalability with length (TYP-1).",
		NotDecided: "the walk itself against LLVM (stepping through arrays, vectors and struct fields is one shared function with no sibling to cross-check); agreement of the element classification inside constant index vectors for forms that cannot change the result type.",
		Rules:      []RuleUse{{Rule: "GEP-WALK"}, {Rule: "GEP-VLEN"}, {Rule: "GEP-SIB"}, {Rule: "GEP-RES"}, {Rule: "TYP-1", Filter: tag("gep"), Floor: 2}, {Rule: "EXH", Filter: tag("gep"), Floor: 50}, {Rule: "ERR", Filter: tag("gep"), Floor: 2}},
	})
	addProperty(&Property{
		ID:         "C08",
		Title:      "Unnamed values are numbered exactly as LLVM numbers them",
		Decided:    "the printer's numbering traversal and the parser's indexing traversal have the same nest, filters and asserted interface (NUM-SHAPE); a type is numbered exactly when it prints a `<ident> = ` prefix, conditional on non-void exactly for call-like types and with the numbering's own skip predicate (NUM-PREFIX); numbering stores only the position counter, starting at 0 and advancing once per unnamed entity, so renumbering an already numbered function changes nothing (NUM-REDERIVE, RACE-2 guard); one numbering authority per ID space (NUM-AUTH); call-like result types are known before numbering (RACE-3). Every top-level entity the parser indexes by global identifier has passed through the parser's numbering function first (NUM-PARSE). Printers call the numbering routines unconditionally (NUM-FIRST); the routines reject exactly the explicit IDs that differ from the position (NUM-VALID).",
		NotDecided: "the arithmetic of the counters as such; agreement with LLVM's own numbering beyond the traversal order LLVM documents.",
		Rules:      []RuleUse{{Rule: "NUM-SHAPE"}, {Rule: "NUM-PREFIX"}, {Rule: "NUM-REDERIVE"}, {Rule: "NUM-AUTH"}, {Rule: "NUM-ORDER"}, {Rule: "RACE-2"}, {Rule: "RACE-3"}, {Rule: "TYP-AGREE", Filter: tag("call"), Floor: 3}, {Rule: "ENC-CLASS"}, {Rule: "NUM-PARSE"}, {Rule: "NUM-FIRST"}, {Rule: "NUM-VALID"}},
	})
	addProperty(&Property{
		ID:         "C11",
		Title:      "Names and strings are escaped losslessly and unambiguously",
		Decided:    "one numeric-name predicate at every site that decides ID vs name, in encoders, decoders and identifier constructors (ENC-NUM); no raw string field reaches a printer's output without an LLVM escaper (ENC-STR); no undecoded token text reaches the IR (ENC-TEXT); per token class the sigil written equals the sigil stripped, and every encoder is applied only to fields of its own class (ENC-PAIR); decoders return the denoted bytes without formatting quote characters into names (ENC-RAW); evaluated over all 256 byte values, every byte class that is copied verbatim between quotes excludes the quote and the backslash, and every hand-made quoting is applied to escaper output or under a guard whose accepted bytes are a subset of the escaper's verbatim set (ENC-SET); in Unescape only bytes of the source are ever examined as escape syntax, never a decoded byte (ENC-UNESC). The encoder that chooses between the bare and the quoted spelling tests the first byte on its own and quotes a name with a leading digit (ENC-HEAD).",
		NotDecided: "losslessness and injectivity of the escaping functions over all byte strings (Escape/Unescape are loops over runtime bytes; beyond the byte classes and the source-byte discipline no structural rule establishes that they are inverse); LLVM's own reading of the tokens.",
		Rules:      []RuleUse{{Rule: "ENC-NUM"}, {Rule: "ENC-STR"}, {Rule: "ENC-TEXT"}, {Rule: "ENC-PAIR"}, {Rule: "ENC-RAW"}, {Rule: "ENC-SET"}, {Rule: "ENC-UNESC"}, {Rule: "ENC-CLASS"}, {Rule: "ENC-HEAD"}},
	})
	addProperty(&Property{
		ID:         "C09",
		Title:      "Integer literals keep their exact value through print and parse",
		Decided:    "ONLY reader/writer table agreement and totality: every spelling class the integer printer can emit (true/false, u0x + base-16 digits, decimal) is accepted by the reader under the same literal and base (LIT-INT-TAB); no value switch of the integer printer has a panicking default over runtime data (VSW); no spelling is produced from a 64-bit narrowing of the arbitrary-precision value (LIT-INT-TAB); the translator hands the unmodified token text to constant.NewIntFromString, and any other decoding of it is a plain base-10 strconv parse (LIT-READER); literal reading and printing keep no process-level state (DET-2 restricted to ir/constant and mewmew/float).",
		NotDecided: "value preservation for any width or value: the entropy heuristic that chooses hexadecimal, two's-complement decoding of s0x by type width, and big-integer formatting are runtime computations that no structural rule bounds. The behavioural core of the property is NOT decided.",
		Rules:      []RuleUse{{Rule: "LIT-INT-TAB"}, {Rule: "VSW"}, {Rule: "LIT-READER"}, {Rule: "DET-2", Filter: tag("lit"), Floor: 1}, {Rule: "LIT-CTOR"}},
	})
	addProperty(&Property{
		ID:         "C10",
		Title:      "Floating-point literals keep their exact bit pattern",
		Decided:    "ONLY reader/writer table agreement: per kind, hex prefix letter and mewmew/float codec are the same in printer and reader, the printer's kind switch covers all declared kinds, and the kinds that can fall through to a decimal spelling are exactly those the reader's decimal branch handles (LIT-FP-TAB); kind switches with panicking defaults are total or exempt with the LLVM rule that makes the missing kinds unreachable (VSW); the 16-digit form of half/float/double is decoded as a double bit pattern with math.Float64frombits, the reader's rounding precision per kind is the same at every site and equals the IEEE significand width, and each kind's decimal spelling is guarded by the exactness test of its own width (LIT-FP-TAB); the translator hands the unmodified token text to constant.NewFloatFromString (LIT-READER); literal reading and printing keep no process-level state, e.g. an exactness cache keyed without the kind (DET-2 restricted to ir/constant and mewmew/float).",
		NotDecided: "any bit pattern: exactness tests, rounding precisions, NaN payloads, signed zeros and subnormals are numerical questions outside this technique. The behavioural core of the property is NOT decided.",
		Rules:      []RuleUse{{Rule: "LIT-FP-TAB"}, {Rule: "VSW"}, {Rule: "LIT-READER"}, {Rule: "DET-2", Filter: tag("lit"), Floor: 1}, {Rule: "LIT-CTOR"}},
	})
	addProperty(&Property{
		ID:         "C02",
		Title:      "Printed output is a fixpoint of parse and print",
		Decided:    "only conditions necessary for idempotence itself (dropping a field is idempotent, so coverage rules are deliberately not attached): output cannot depend on map iteration order (DET-1); every keyword, literal spelling class and identifier spelling the printer can choose is read back into the same class/value table entry (ENUM-TAB, ENUM-LEX, LIT-INT-TAB, LIT-FP-TAB, ENC-NUM, ENC-PAIR, MD-KEY); the numbering the printer emits is the numbering the parser assigns on re-read (NUM-SHAPE, NUM-PREFIX, NUM-AUTH); every emitted list is already in the order a re-parse would put it in (ORD-SORT); a name the printer omits as default is exactly the default the translator substitutes (ELIDE); a merge that removes duplicates removes them across all merged definitions, so that merging its own output changes nothing (DEDUP-SCOPE), and is keyed by the translated value, not by one of its source spellings (DEDUP-KEY); literal token text is decoded by the one reader the printer's spellings are matched against (LIT-READER). No field translator depends on the order of `key: value` fields, so the printer's canonical order is read like any other (FLD-LOOP); no two values of an enum-valued attribute share one spelling and none is omitted except at the value the reader substitutes (ENUM-OMIT).",
		NotDecided: "byte equality of the two texts; structural identity of the two parsed modules; acceptance of the printed text by the generated LALR parser beyond keyword/terminal membership.",
		Rules: []RuleUse{{Rule: "DET-1"}, {Rule: "ENUM-TAB"}, {Rule: "ENUM-LEX"}, {Rule: "LIT-INT-TAB"}, {Rule: "LIT-FP-TAB"}, {Rule: "ENC-NUM"}, {Rule: "ENC-PAIR"}, {Rule: "MD-KEY"},
			{Rule: "NUM-SHAPE"}, {Rule: "NUM-PREFIX"}, {Rule: "NUM-AUTH"}, {Rule: "ORD-SORT"}, {Rule: "ELIDE"}, {Rule: "DEDUP-SCOPE"}, {Rule: "LIT-READER"}, {Rule: "NUM-ORDER"}, {Rule: "FLD-LOOP"}, {Rule: "ENUM-OMIT"}, {Rule: "DEDUP-KEY"}},
	})
}

package main

func init() {
	addProperty(&Property{
		ID:    "C18",
		Title: "Every enumerated keyword maps back to the value that printed it",
		Decided: "for all declared values of all enum types (exhaustive): String table defines a keyword, FromString maps it back to the same value, keywords are injective (ENUM-TAB); the keyword is a terminal the llir/ll lexer can produce (ENUM-LEX); flag-set printers enumerate exactly the single-bit members between First and Last (ENUM-FLAGS); each FromString is applied to the matching AST keyword node (ENUM-USE).",
		NotDecided: "all subsets of the flag types beyond the structure of the set printers; acceptance of each keyword by LLVM itself.",
		Rules: []RuleUse{{Rule: "ENUM-TAB"}, {Rule: "ENUM-LEX"}, {Rule: "ENUM-FLAGS"}, {Rule: "ENUM-USE"}},
	})
}

package main

import (
	"fmt"
	"go/ast"
	"go/constant"
	"go/token"
	"go/types"
	"regexp"
	"sort"
	"strings"
)

// OPS — operand and successor views (C15); EQ — type equality structure (C16).

func init() {
	register(&Rule{
		Name:  "OPS-1",
		Doc:   "for every type with an Operands() []*value.Value method, every field path that ends in a value.Value slot (through fields, pointers and slices of ir struct types: Callee, Args[], Incs[].X, Cases[].Target, OperandBundles[].Inputs[], …) has its address taken in Operands()",
		Floor: 100,
		Run:   ruleOPS1,
	})
	register(&Rule{
		Name:  "OPS-2",
		Doc:   "every element Operands() returns is the address of a slot rooted at the pointer receiver, slices indexed in place (never the address of a range copy or a local), so a write through the slot changes the instruction",
		Floor: 60,
		Run:   ruleOPS2,
	})
	register(&Rule{
		Name:  "OPS-3",
		Doc:   "each terminator's Succs() reads every target field — the fields its constructor fills from *Block / []*Block parameters (and the Target of its cases) — in constructor order",
		Floor: 12,
		Run:   ruleOPS3,
	})
	register(&Rule{
		Name:  "EQ-1",
		Doc:   "each Equal method of a type kind reads every identity field of the kind on both the receiver and the asserted argument (following same-receiver calls)",
		Floor: 12,
		Run:   ruleEQ1,
	})
	register(&Rule{
		Name:  "EQ-2",
		Doc:   "each Equal method asserts its argument to the receiver's own kind and returns false otherwise (necessary for symmetry across kinds)",
		Floor: 12,
		Run:   ruleEQ2,
	})
	register(&Rule{
		Name:  "EQ-3",
		Doc:   "in the struct kind's Equal the type-name comparison returns before any recursion into field types (name cut ⇒ termination on recursive types); no other kind can close a cycle without passing a named struct",
		Floor: 1,
		Run:   ruleEQ3,
	})
}

func isValueValue(t types.Type) bool { return isNamed(t, pkgVAL, "Value") && !isPtr(t) }

// valuePaths enumerates the field paths of n that end in a value.Value slot.
func (c *Ctx) valuePaths(n *types.Named, prefix string, depth int, seen map[*types.Named]bool) []string {
	st, ok := n.Underlying().(*types.Struct)
	if !ok || depth > 3 || seen[n] {
		return nil
	}
	seen[n] = true
	defer delete(seen, n)
	var out []string
	for i := 0; i < st.NumFields(); i++ {
		f := st.Field(i)
		if !f.Exported() || f.Embedded() {
			continue
		}
		t := f.Type()
		path := prefix + f.Name()
		if sl, ok := t.(*types.Slice); ok {
			t = sl.Elem()
			path += "[]"
		}
		if isValueValue(t) {
			out = append(out, path)
			continue
		}
		if pt, ok := t.(*types.Pointer); ok {
			t = pt.Elem()
		}
		if nn, ok := t.(*types.Named); ok && nn.Obj().Pkg() != nil && nn.Obj().Pkg().Path() == pkgIR {
			if _, isStruct := nn.Underlying().(*types.Struct); isStruct {
				// only operand-carrier structs: types that are not themselves definitions
				// (no Operands method, not a Block/Func/Module)
				switch nn.Obj().Name() {
				case "Block", "Func", "Module", "Global", "Alias", "IFunc", "Param":
					continue
				}
				if declaredMethodOf(nn, "Operands") != nil {
					continue
				}
				out = append(out, c.valuePaths(nn, path+".", depth+1, seen)...)
			}
		}
	}
	return out
}

var indexRE = regexp.MustCompile(`\[[^\]]*\]`)

type userType struct {
	n    *types.Named
	ops  *types.Func
	fd   *ast.FuncDecl
	recv types.Object
	ptr  bool
}

func (c *Ctx) userTypes() []*userType {
	if v, ok := c.memo["userTypes"]; ok {
		return v.([]*userType)
	}
	var out []*userType
	p := c.pkg(pkgIR)
	scope := p.Types.Scope()
	for _, name := range scope.Names() {
		tn, ok := scope.Lookup(name).(*types.TypeName)
		if !ok {
			continue
		}
		n, ok := tn.Type().(*types.Named)
		if !ok {
			continue
		}
		if _, ok := n.Underlying().(*types.Struct); !ok {
			continue
		}
		ops := declaredMethodOf(n, "Operands")
		if ops == nil {
			continue
		}
		sig := ops.Type().(*types.Signature)
		if sig.Results().Len() != 1 || types.TypeString(sig.Results().At(0).Type(), nil) != "[]*"+pkgVAL+".Value" {
			continue
		}
		fd := c.funcDecl(ops)
		if fd == nil {
			continue
		}
		ut := &userType{n: n, ops: ops, fd: fd, ptr: isPtr(sig.Recv().Type())}
		if len(fd.Recv.List) == 1 && len(fd.Recv.List[0].Names) == 1 {
			ut.recv = p.TypesInfo.Defs[fd.Recv.List[0].Names[0]]
		}
		out = append(out, ut)
	}
	c.memo["userTypes"] = out
	return out
}

// addrPaths returns the normalised paths of all `&recv.path` expressions in the body.
func addrPaths(info *types.Info, fd *ast.FuncDecl, recv types.Object) (paths map[string]token.Pos, foreign []ast.Expr) {
	paths = map[string]token.Pos{}
	ast.Inspect(fd.Body, func(n ast.Node) bool {
		ue, ok := n.(*ast.UnaryExpr)
		if !ok || ue.Op != token.AND {
			return true
		}
		if _, isLit := unparen(ue.X).(*ast.CompositeLit); isLit {
			return true
		}
		// root identifier
		e := unparen(ue.X)
		root := e
		for {
			switch x := root.(type) {
			case *ast.SelectorExpr:
				root = unparen(x.X)
				continue
			case *ast.IndexExpr:
				root = unparen(x.X)
				continue
			case *ast.StarExpr:
				root = unparen(x.X)
				continue
			}
			break
		}
		id, ok := root.(*ast.Ident)
		if !ok || recv == nil {
			foreign = append(foreign, ue)
			return true
		}
		s := exprString(e)
		if info.ObjectOf(id) != recv {
			// a pointer-typed local that denotes part of the receiver: the value variable of a
			// range over a slice of pointers rooted at the receiver, or `v := recv.path` of
			// pointer type. (A struct-typed local is a copy: its address is foreign.)
			base, ok := localRootedAt(info, fd, info.ObjectOf(id), recv, 0)
			if !ok {
				foreign = append(foreign, ue)
				return true
			}
			s = base + strings.TrimPrefix(s, id.Name)
		}
		s = strings.TrimPrefix(s, recvName(recv)+".")
		s = indexRE.ReplaceAllString(s, "[]")
		paths[s] = ue.Pos()
		return true
	})
	return paths, foreign
}

// addrPathsDeep: addrPaths plus the slots taken inside helpers of the package that are handed parts of
// the receiver: appendCallOperands(ops, &inst.Callee, inst.Args, inst.OperandBundles) takes &args[i] and
// &operandBundles[i].Inputs[j], which are the receiver's Args[] and OperandBundles[].Inputs[].
func (c *Ctx) addrPathsDeep(info *types.Info, fd *ast.FuncDecl, recv types.Object) (map[string]token.Pos, []ast.Expr) {
	paths, foreign := addrPaths(info, fd, recv)
	if recv == nil {
		return paths, foreign
	}
	ast.Inspect(fd.Body, func(n ast.Node) bool {
		call, ok := n.(*ast.CallExpr)
		if !ok {
			return true
		}
		f := calleeOf(info, call)
		if f == nil || f.Pkg() == nil || !c.isLLVM(f.Pkg().Path()) {
			return true
		}
		hfd := c.funcDecl(f)
		if hfd == nil || hfd.Body == nil || hfd == fd {
			return true
		}
		hinfo := c.declPkg[hfd].TypesInfo
		k := 0
		for _, fl := range hfd.Type.Params.List {
			for _, nm := range fl.Names {
				if k < len(call.Args) {
					arg := unparen(call.Args[k])
					// the argument is a part of the receiver (recv.Args, recv.OperandBundles)
					root := arg
					for {
						switch x := root.(type) {
						case *ast.SelectorExpr:
							root = unparen(x.X)
							continue
						case *ast.IndexExpr:
							root = unparen(x.X)
							continue
						}
						break
					}
					if id, ok := root.(*ast.Ident); ok && info.ObjectOf(id) == recv && arg != root {
						base := strings.TrimPrefix(exprString(arg), recvName(recv)+".")
						pobj := hinfo.Defs[nm]
						switch pobj.Type().Underlying().(type) {
						case *types.Slice, *types.Pointer:
							hp, _ := addrPaths(hinfo, hfd, pobj)
							// only slots the helper takes for every element: an address taken under a
							// condition, or after a `continue` / `break` of its loop, skips some operands
							hpm := buildParents(hfd)
							for sfx, pos := range hp {
								conditional := false
								ast.Inspect(hfd.Body, func(m ast.Node) bool {
									ue, ok := m.(*ast.UnaryExpr)
									if !ok || ue.Pos() != pos {
										return true
									}
									var child ast.Node = ue
									outside := false // above the loop that visits the elements
									for q := hpm[ue]; q != nil && !outside; child, q = q, hpm[q] {
										switch x := q.(type) {
										case *ast.ForStmt, *ast.RangeStmt:
											// one more level for nested element loops (bundles → inputs); what precedes the
											// outermost loop concerns the whole list, not one element
											if _, nested := enclosingLoop(hpm, q); !nested {
												outside = true
											}
										case *ast.IfStmt:
											if child == ast.Node(x.Body) || child == x.Else {
												conditional = true
											}
										case *ast.CaseClause:
											conditional = true
										case *ast.BlockStmt:
											// an earlier statement of the same block that can leave the iteration
											for _, st := range x.List {
												if st.Pos() >= child.Pos() {
													break
												}
												ast.Inspect(st, func(k ast.Node) bool {
													if br, ok := k.(*ast.BranchStmt); ok && (br.Tok == token.CONTINUE || br.Tok == token.BREAK) {
														conditional = true
													}
													if _, ok := k.(*ast.ReturnStmt); ok {
														conditional = true
													}
													return true
												})
											}
										}
									}
									return false
								})
								if conditional {
									continue
								}
								// addrPaths leaves the parameter's own name in front of an index: args[] → []
								sfx = strings.TrimPrefix(sfx, nm.Name)
								paths[base+sfx] = pos
							}
						}
					}
				}
				k++
			}
		}
		return true
	})
	// the helper's own &param[i] expressions were reported as foreign addresses of the helper, not of
	// this method; nothing to remove here
	return paths, foreign
}

// enclosingLoop: the nearest for / range statement around n.
func enclosingLoop(pm parentMap, n ast.Node) (ast.Node, bool) {
	for q := pm[n]; q != nil; q = pm[q] {
		switch q.(type) {
		case *ast.ForStmt, *ast.RangeStmt:
			return q, true
		case *ast.FuncLit:
			return nil, false
		}
	}
	return nil, false
}

func recvName(recv types.Object) string {
	if recv == nil {
		return ""
	}
	return recv.Name()
}

// localRootedAt resolves a pointer-typed local variable to the receiver-rooted
// expression it aliases: `for _, v := range recv.p` (elements are pointers) gives
// "recv.p[]", `v := recv.p[i]` gives "recv.p[i]".
func localRootedAt(info *types.Info, fd *ast.FuncDecl, v, recv types.Object, depth int) (string, bool) {
	if v == nil || depth > 3 {
		return "", false
	}
	// a pointer aliases its pointee, a slice header copy aliases the elements; a struct or
	// array value is a copy
	switch v.Type().Underlying().(type) {
	case *types.Pointer, *types.Slice:
	default:
		return "", false
	}
	rooted := func(e ast.Expr) (string, bool) {
		r := unparen(e)
		for {
			switch x := r.(type) {
			case *ast.SelectorExpr:
				r = unparen(x.X)
				continue
			case *ast.IndexExpr:
				r = unparen(x.X)
				continue
			case *ast.StarExpr:
				r = unparen(x.X)
				continue
			}
			break
		}
		id, ok := r.(*ast.Ident)
		if !ok {
			return "", false
		}
		if info.ObjectOf(id) == recv {
			return exprString(e), true
		}
		base, ok := localRootedAt(info, fd, info.ObjectOf(id), recv, depth+1)
		if !ok {
			return "", false
		}
		return base + strings.TrimPrefix(exprString(e), id.Name), true
	}
	res, found := "", false
	ast.Inspect(fd.Body, func(n ast.Node) bool {
		switch n := n.(type) {
		case *ast.RangeStmt:
			if id, ok := n.Value.(*ast.Ident); ok && info.ObjectOf(id) == v {
				if base, ok := rooted(n.X); ok {
					res, found = base+"[]", true
				}
			}
		case *ast.AssignStmt:
			if n.Tok == token.DEFINE && len(n.Lhs) == len(n.Rhs) {
				for i, l := range n.Lhs {
					if id, ok := l.(*ast.Ident); ok && info.ObjectOf(id) == v {
						if base, ok := rooted(n.Rhs[i]); ok {
							res, found = base, true
						}
					}
				}
			}
		}
		return true
	})
	return res, found
}

func ruleOPS1(c *Ctx) []Obligation {
	var obs []Obligation
	info := c.pkg(pkgIR).TypesInfo
	for _, ut := range c.userTypes() {
		want := c.valuePaths(ut.n, "", 0, map[*types.Named]bool{})
		got, _ := c.addrPathsDeep(info, ut.fd, ut.recv)
		tkey := typeKey(ut.n)
		for _, w := range want {
			o := Obligation{Key: fmt.Sprintf("%s Operands ∋ %s", tkey, w), Pos: c.pos(ut.fd.Pos()), Verdict: OK}
			if pos, ok := got[w]; ok {
				o.Pos = c.pos(pos)
				o.Detail = "&" + w
			} else {
				o.Verdict = VIOL
				o.Detail = fmt.Sprintf("%s holds a value in %s but Operands() does not expose a slot for it: a use there is invisible to, and cannot be rewritten by, operand-based analyses", tkey, w)
			}
			obs = append(obs, o)
		}
		if len(want) == 0 {
			obs = append(obs, Obligation{Key: tkey + " Operands (no value slots)", Pos: c.pos(ut.fd.Pos()), Verdict: OK, Detail: "type holds no value.Value field"})
		}
	}
	return obs
}

// opsDistinctSlots: when Operands() fills its result by index (ops[IDX] = &slot)
// inside loops, IDX must advance with every enclosing loop: it mentions that
// loop's index variable, or a variable that is assigned inside that loop's body
// (a running offset). Otherwise every iteration of that loop writes the same
// result positions and earlier slots are overwritten. Append-only methods are
// trivially distinct.
func (c *Ctx) opsDistinctSlots(info *types.Info, ut *userType) Obligation {
	o := Obligation{Key: typeKey(ut.n) + " Operands result positions are distinct", Pos: c.pos(ut.fd.Pos()), Verdict: OK, Detail: "slots are appended"}
	pm := buildParents(ut.fd.Body)
	resType := "[]*" + pkgVAL + ".Value"
	filled := 0
	ast.Inspect(ut.fd.Body, func(n ast.Node) bool {
		as, ok := n.(*ast.AssignStmt)
		if !ok || len(as.Lhs) != 1 || o.Verdict != OK {
			return true
		}
		ix, ok := unparen(as.Lhs[0]).(*ast.IndexExpr)
		if !ok || types.TypeString(info.TypeOf(ix.X), nil) != resType {
			return true
		}
		filled++
		mentioned := map[types.Object]bool{}
		ast.Inspect(ix.Index, func(m ast.Node) bool {
			if id, ok := m.(*ast.Ident); ok {
				if obj := info.ObjectOf(id); obj != nil {
					mentioned[obj] = true
				}
			}
			return true
		})
		for p := pm[as]; p != nil; p = pm[p] {
			var body *ast.BlockStmt
			var loopVars []types.Object
			switch l := p.(type) {
			case *ast.RangeStmt:
				body = l.Body
				if id, ok := l.Key.(*ast.Ident); ok && id.Name != "_" {
					loopVars = append(loopVars, info.ObjectOf(id))
				}
			case *ast.ForStmt:
				body = l.Body
				if init, ok := l.Init.(*ast.AssignStmt); ok {
					for _, lh := range init.Lhs {
						if id, ok := lh.(*ast.Ident); ok {
							loopVars = append(loopVars, info.ObjectOf(id))
						}
					}
				}
			default:
				continue
			}
			advances := false
			for _, v := range loopVars {
				if mentioned[v] {
					advances = true
				}
			}
			if !advances {
				// a mentioned variable assigned / incremented inside this loop's body
				ast.Inspect(body, func(m ast.Node) bool {
					switch m := m.(type) {
					case *ast.AssignStmt:
						if m == as {
							return true
						}
						for _, lh := range m.Lhs {
							if id, ok := unparen(lh).(*ast.Ident); ok && mentioned[info.ObjectOf(id)] && m.Tok != token.DEFINE {
								advances = true
							}
						}
					case *ast.IncDecStmt:
						if id, ok := unparen(m.X).(*ast.Ident); ok && mentioned[info.ObjectOf(id)] {
							advances = true
						}
					}
					return true
				})
			}
			if !advances {
				o.Verdict = VIOL
				o.Pos = c.pos(as.Pos())
				o.Detail = fmt.Sprintf("the result position %s does not change from one iteration of the loop at %s to the next (it mentions neither the loop's index nor an offset advanced in its body): later iterations overwrite the slots stored by earlier ones, which then have no position in the operand list", exprString(ix.Index), c.pos(p.Pos()))
				break
			}
		}
		return true
	})
	if o.Verdict == OK && filled > 0 {
		o.Detail = fmt.Sprintf("%d index-filled position(s), each advancing with every enclosing loop", filled)
	}
	return o
}

func ruleOPS2(c *Ctx) []Obligation {
	var obs []Obligation
	info := c.pkg(pkgIR).TypesInfo
	for _, ut := range c.userTypes() {
		tkey := typeKey(ut.n)
		obs = append(obs, c.opsDistinctSlots(info, ut))
		o := Obligation{Key: tkey + " Operands slots are live", Pos: c.pos(ut.fd.Pos()), Verdict: OK}
		got, foreign := c.addrPathsDeep(info, ut.fd, ut.recv)
		switch {
		case !ut.ptr && len(got) > 0:
			o.Verdict, o.Detail = VIOL, "Operands has a value receiver: the returned slots point into a copy of the instruction"
		case len(foreign) > 0:
			o.Verdict = VIOL
			o.Pos = c.pos(foreign[0].Pos())
			o.Detail = fmt.Sprintf("%s is the address of something not rooted at the receiver (a range copy or local): writing through it does not change the instruction", exprString(foreign[0]))
		}
		// slices must be indexed by the key of a range over the same slice (or a plain for over len)
		if o.Verdict == OK {
			ast.Inspect(ut.fd.Body, func(n ast.Node) bool {
				rs, ok := n.(*ast.RangeStmt)
				if !ok || o.Verdict != OK {
					return true
				}
				if rs.Value != nil {
					if id, ok := rs.Value.(*ast.Ident); ok && id.Name != "_" {
						// value variable must not have its address taken (checked by foreign above); nothing else to do
						_ = id
					}
				}
				return true
			})
		}
		// every element that Operands returns must be an address expression: look at append args and literal elements
		if o.Verdict == OK {
			bad := ""
			ast.Inspect(ut.fd.Body, func(n ast.Node) bool {
				switch n := n.(type) {
				case *ast.CallExpr:
					if id, ok := n.Fun.(*ast.Ident); ok && id.Name == "append" && len(n.Args) >= 2 {
						if types.TypeString(info.TypeOf(n.Args[0]), nil) == "[]*"+pkgVAL+".Value" {
							for _, a := range n.Args[1:] {
								if ue, ok := unparen(a).(*ast.UnaryExpr); !ok || ue.Op != token.AND {
									if n.Ellipsis.IsValid() {
										continue
									}
									bad = exprString(a)
								}
							}
						}
					}
				case *ast.CompositeLit:
					if types.TypeString(info.TypeOf(n), nil) == "[]*"+pkgVAL+".Value" {
						for _, el := range n.Elts {
							if ue, ok := unparen(el).(*ast.UnaryExpr); !ok || ue.Op != token.AND {
								bad = exprString(el)
							}
						}
					}
				}
				return true
			})
			if bad != "" {
				o.Verdict, o.Detail = VIOL, fmt.Sprintf("Operands returns %s, which is not the address of a field slot", bad)
			}
		}
		if o.Verdict == OK {
			o.Detail = fmt.Sprintf("%d slot expression(s), all &recv.path", len(got))
		}
		obs = append(obs, o)
	}
	return obs
}

// ---------------------------------------------------------------------------

func isBlockPtr(t types.Type) bool {
	if sl, ok := t.(*types.Slice); ok {
		t = sl.Elem()
	}
	return isPtr(t) && isNamed(t, pkgIR, "Block")
}

func ruleOPS3(c *Ctx) []Obligation {
	var obs []Obligation
	byType := map[*types.Named]*ctorInfo{}
	for _, ci := range c.constructors() {
		if ci.fn.Pkg().Path() == pkgIR && ci.fn.Name() == "New"+strings.TrimPrefix(ci.result.Obj().Name(), "Term") {
			byType[ci.result] = ci
		}
	}
	p := c.pkg(pkgIR)
	scope := p.Types.Scope()
	for _, name := range scope.Names() {
		if !strings.HasPrefix(name, "Term") {
			continue
		}
		tn, ok := scope.Lookup(name).(*types.TypeName)
		if !ok {
			continue
		}
		n, ok := tn.Type().(*types.Named)
		if !ok {
			continue
		}
		succs := declaredMethodOf(n, "Succs")
		if succs == nil {
			continue
		}
		tkey := typeKey(n)
		o := Obligation{Key: tkey + " Succs", Pos: c.pos(c.funcDecl(succs).Pos()), Verdict: OK}
		ci := byType[n]
		if ci == nil {
			o.Verdict, o.Detail = UNDECIDED, "no constructor New"+strings.TrimPrefix(name, "Term")+" found to derive the target fields from"
			obs = append(obs, o)
			continue
		}
		// target fields in constructor parameter order
		var targets []string
		sig := ci.fn.Type().(*types.Signature)
		for i := 0; i < sig.Params().Len(); i++ {
			pv := sig.Params().At(i)
			isCases := false
			if sl, ok := pv.Type().(*types.Slice); ok && isPtr(sl.Elem()) && isNamed(sl.Elem(), pkgIR, "Case") {
				isCases = true
			}
			if !isBlockPtr(pv.Type()) && !isCases {
				continue
			}
			fs := sortedKeys(ci.flows[pv.Name()])
			if len(fs) > 1 {
				seeds := false
				var rest []string
				for _, f := range fs {
					if f == "Successors" {
						seeds = true
					} else {
						rest = append(rest, f)
					}
				}
				if seeds {
					o.Verdict = VIOL
					o.Detail = fmt.Sprintf("the constructor pre-seeds the Successors cache from its parameter %s (which also fills %v): the cache shares storage with the caller's slice and is not derived from the target fields, so Succs() can differ from the branch targets", pv.Name(), rest)
					continue
				}
			}
			if len(fs) != 1 {
				o.Verdict, o.Detail = UNDECIDED, fmt.Sprintf("constructor parameter %s flows into %v", pv.Name(), fs)
				continue
			}
			targets = append(targets, fs[0])
		}
		if o.Verdict != OK {
			obs = append(obs, o)
			continue
		}
		// order of first reads in Succs
		first := map[string]token.Pos{}
		// reads inside len()/cap()/make() are capacity hints, not successor order
		var hints [][2]token.Pos
		ast.Inspect(c.funcDecl(succs).Body, func(n ast.Node) bool {
			if call, ok := n.(*ast.CallExpr); ok {
				if id, ok := call.Fun.(*ast.Ident); ok && (id.Name == "len" || id.Name == "cap" || id.Name == "make") {
					hints = append(hints, [2]token.Pos{call.Pos(), call.End()})
				}
			}
			return true
		})
		// a target list hoisted into a local (others := term.OtherRetTargets) is read where the
		// local is used, not where it is defined
		sfd := c.funcDecl(succs)
		sinfo := c.declPkg[sfd].TypesInfo
		aliasDef := map[token.Pos]bool{}
		ast.Inspect(sfd.Body, func(n ast.Node) bool {
			as, ok := n.(*ast.AssignStmt)
			if !ok || len(as.Lhs) != len(as.Rhs) {
				return true
			}
			for i, l := range as.Lhs {
				id, ok := l.(*ast.Ident)
				se, ok2 := unparen(as.Rhs[i]).(*ast.SelectorExpr)
				if !ok || !ok2 {
					continue
				}
				if sel, ok := sinfo.Selections[se]; !ok || sel.Kind() != types.FieldVal {
					continue
				}
				obj := sinfo.ObjectOf(id)
				aliasDef[se.Pos()] = true
				ast.Inspect(sfd.Body, func(m ast.Node) bool {
					if u, ok := m.(*ast.Ident); ok && u != id && sinfo.ObjectOf(u) == obj {
						inHint := false
						for _, h := range hints {
							if h[0] <= u.Pos() && u.Pos() < h[1] {
								inHint = true
							}
						}
						if _, has := first[se.Sel.Name]; !inHint && (!has || u.Pos() < first[se.Sel.Name]) {
							first[se.Sel.Name] = u.Pos()
						}
					}
					return true
				})
			}
			return true
		})
		for _, e := range c.subjectFields(succs, -1) {
			if e.Write && e.Direct {
				continue
			}
			if aliasDef[e.Pos] {
				continue
			}
			hint := false
			for _, h := range hints {
				if h[0] <= e.Pos && e.Pos < h[1] {
					hint = true
				}
			}
			if hint {
				continue
			}
			if p0, ok := first[e.Field]; !ok || e.Pos < p0 {
				first[e.Field] = e.Pos
			}
		}
		var prev token.Pos
		for _, tf := range targets {
			pos, ok := first[tf]
			if !ok {
				o.Verdict = VIOL
				o.Detail = fmt.Sprintf("Succs() never reads the target field %s (filled by the constructor from a block parameter): that successor is missing", tf)
				break
			}
			if pos < prev {
				o.Verdict = VIOL
				o.Detail = fmt.Sprintf("Succs() reads %s before an earlier target: successors are not in branch-target order %v", tf, targets)
				break
			}
			prev = pos
		}
		if o.Verdict == OK {
			if len(targets) == 0 {
				o.Detail = "no block-typed constructor parameter: no successors"
				// then Succs must not read anything
			} else {
				o.Detail = "reads " + strings.Join(targets, ", ") + " in order"
			}
		}
		if o.Verdict == OK {
			if bad, pos := c.slotDiscipline(c.funcDecl(succs)); bad != "" {
				o.Verdict, o.Detail, o.Pos = VIOL, bad, c.pos(pos)
			}
		}
		obs = append(obs, o)
	}
	return obs
}

// slotDiscipline: when a result list is built by indexed stores into a pre-sized slice instead of
// appends, the slots written must not overlap: constant-index stores cover 0..n-1 once each, and a
// bulk fill (a helper or loop that writes dst[i] for the i-th element of another list, or copy)
// starts at offset n. Returns a description of the first overlap.
func (c *Ctx) slotDiscipline(fd *ast.FuncDecl) (string, token.Pos) {
	if fd == nil || fd.Body == nil {
		return "", token.NoPos
	}
	info := c.declPkg[fd].TypesInfo
	// pre-sized locals: v := make([]T, n[, cap]) with a non-zero length argument
	sized := map[types.Object]bool{}
	ast.Inspect(fd.Body, func(n ast.Node) bool {
		as, ok := n.(*ast.AssignStmt)
		if !ok || len(as.Lhs) != 1 || len(as.Rhs) != 1 {
			return true
		}
		call, ok := unparen(as.Rhs[0]).(*ast.CallExpr)
		if !ok || exprString(call.Fun) != "make" || len(call.Args) < 2 {
			return true
		}
		if tv := info.Types[call.Args[1]]; tv.Value != nil && tv.Value.String() == "0" {
			return true
		}
		if id, ok := as.Lhs[0].(*ast.Ident); ok {
			sized[info.ObjectOf(id)] = true
		}
		return true
	})
	if len(sized) == 0 {
		return "", token.NoPos
	}
	// a fill helper: a function whose first parameter is a slice it stores into at the index of a
	// range over another parameter
	isFill := func(f *types.Func) bool {
		hfd := c.funcDecl(f)
		if hfd == nil || hfd.Body == nil {
			return false
		}
		hi := c.declPkg[hfd].TypesInfo
		sig := f.Type().(*types.Signature)
		if sig.Params().Len() < 2 {
			return false
		}
		dst := sig.Params().At(0)
		found := false
		ast.Inspect(hfd.Body, func(n ast.Node) bool {
			rs, ok := n.(*ast.RangeStmt)
			if !ok {
				return true
			}
			k, ok := rs.Key.(*ast.Ident)
			if !ok {
				return true
			}
			ast.Inspect(rs.Body, func(m ast.Node) bool {
				if as, ok := m.(*ast.AssignStmt); ok {
					for _, l := range as.Lhs {
						if ix, ok := unparen(l).(*ast.IndexExpr); ok {
							if d, ok := unparen(ix.X).(*ast.Ident); ok && hi.ObjectOf(d) == dst {
								if ki, ok := unparen(ix.Index).(*ast.Ident); ok && hi.ObjectOf(ki) == hi.ObjectOf(k) {
									found = true
								}
							}
						}
					}
				}
				return true
			})
			return true
		})
		return found
	}
	// destination expression → (object, offset)
	destOf := func(e ast.Expr) (types.Object, int64, bool) {
		e = unparen(e)
		if sl, ok := e.(*ast.SliceExpr); ok {
			id, ok := unparen(sl.X).(*ast.Ident)
			if !ok || !sized[info.ObjectOf(id)] {
				return nil, 0, false
			}
			off := int64(0)
			if sl.Low != nil {
				tv := info.Types[sl.Low]
				if tv.Value == nil {
					return info.ObjectOf(id), -1, true
				}
				off, _ = constant.Int64Val(constant.ToInt(tv.Value))
			}
			return info.ObjectOf(id), off, true
		}
		if id, ok := e.(*ast.Ident); ok && sized[info.ObjectOf(id)] {
			return info.ObjectOf(id), 0, true
		}
		return nil, 0, false
	}
	singles := map[types.Object]map[int64]token.Pos{}
	bad, badPos := "", token.NoPos
	report := func(s string, pos token.Pos) {
		if bad == "" {
			bad, badPos = s, pos
		}
	}
	ast.Inspect(fd.Body, func(n ast.Node) bool {
		switch n := n.(type) {
		case *ast.AssignStmt:
			for _, l := range n.Lhs {
				ix, ok := unparen(l).(*ast.IndexExpr)
				if !ok {
					continue
				}
				id, ok := unparen(ix.X).(*ast.Ident)
				if !ok || !sized[info.ObjectOf(id)] {
					continue
				}
				tv := info.Types[ix.Index]
				if tv.Value == nil {
					continue
				}
				k, _ := constant.Int64Val(constant.ToInt(tv.Value))
				obj := info.ObjectOf(id)
				if singles[obj] == nil {
					singles[obj] = map[int64]token.Pos{}
				}
				if _, dup := singles[obj][k]; dup {
					report(fmt.Sprintf("slot %d of %s is stored twice", k, id.Name), n.Pos())
				}
				singles[obj][k] = n.Pos()
			}
		case *ast.CallExpr:
			var dst ast.Expr
			if exprString(n.Fun) == "copy" && len(n.Args) == 2 {
				dst = n.Args[0]
			} else if f := calleeOf(info, n); f != nil && f.Pkg() != nil && c.isLLVM(f.Pkg().Path()) && len(n.Args) >= 2 && isFill(f) {
				dst = n.Args[0]
			}
			if dst == nil {
				return true
			}
			obj, off, ok := destOf(dst)
			if !ok {
				return true
			}
			nSingles := int64(0)
			for k, pos := range singles[obj] {
				if pos < n.Pos() {
					nSingles++
					_ = k
				}
			}
			if off >= 0 && off != nSingles {
				report(fmt.Sprintf("the result is built by indexed stores: %d slot(s) of %s are stored individually before the bulk fill %s, which starts at offset %d: the fill overwrites slot %d and the last slot stays nil — a successor is lost and a nil block is reported", nSingles, obj.Name(), exprString(n), off, off), n.Pos())
			}
		}
		return true
	})
	return bad, badPos
}

// ---------------------------------------------------------------------------

type typeKind struct {
	n  *types.Named
	eq *types.Func
	fd *ast.FuncDecl
}

func (c *Ctx) typeKinds() []*typeKind {
	var out []*typeKind
	p := c.pkg(pkgTYP)
	iface := c.lookupType(pkgTYP, "Type")
	if iface == nil {
		return nil
	}
	it := iface.Type().Underlying().(*types.Interface)
	scope := p.Types.Scope()
	for _, name := range scope.Names() {
		tn, ok := scope.Lookup(name).(*types.TypeName)
		if !ok {
			continue
		}
		n, ok := tn.Type().(*types.Named)
		if !ok {
			continue
		}
		if _, ok := n.Underlying().(*types.Struct); !ok {
			continue
		}
		if !types.Implements(types.NewPointer(n), it) {
			continue
		}
		eq := declaredMethodOf(n, "Equal")
		if eq == nil {
			continue
		}
		out = append(out, &typeKind{n, eq, c.funcDecl(eq)})
	}
	sort.Slice(out, func(i, j int) bool { return out[i].n.Obj().Name() < out[j].n.Obj().Name() })
	return out
}

// eqNonIdentity: fields that are not part of a kind's identity.
var eqNonIdentity = map[string]string{
	"StructType.Opaque": "opaque-ness is a property of the definition's body, not of type identity (identified structs compare by name)",
}

func ruleEQ1(c *Ctx) []Obligation {
	var obs []Obligation
	info := c.pkg(pkgTYP).TypesInfo
	for _, k := range c.typeKinds() {
		st := k.n.Underlying().(*types.Struct)
		recvReads := map[string]bool{}
		for _, e := range c.subjectFields(k.eq, -1) {
			recvReads[e.Field] = true
		}
		// reads on any other identifier of type *K (the asserted argument)
		argReads := map[string]bool{}
		var recvObj types.Object
		if len(k.fd.Recv.List[0].Names) == 1 {
			recvObj = info.Defs[k.fd.Recv.List[0].Names[0]]
		}
		ast.Inspect(k.fd.Body, func(n ast.Node) bool {
			se, ok := n.(*ast.SelectorExpr)
			if !ok {
				return true
			}
			id, ok := unparen(se.X).(*ast.Ident)
			if !ok || info.ObjectOf(id) == recvObj {
				return true
			}
			if namedOf(info.TypeOf(id)) != k.n {
				return true
			}
			if sel, ok := info.Selections[se]; ok && sel.Kind() == types.FieldVal {
				argReads[st.Field(sel.Index()[0]).Name()] = true
			}
			return true
		})
		// the asserted argument handed to a helper of the package (t.equalParams(other), equalTypes(t.Fields,
		// u.Fields) is covered above): field reads on the parameter that receives it, two levels deep
		var followArg func(body ast.Node, depth int)
		followArg = func(body ast.Node, depth int) {
			ast.Inspect(body, func(n ast.Node) bool {
				call, ok := n.(*ast.CallExpr)
				if !ok || depth > 2 {
					return true
				}
				f := calleeOf(info, call)
				if f == nil || f.Pkg() == nil || f.Pkg().Path() != pkgTYP {
					return true
				}
				hfd := c.funcDecl(f)
				if hfd == nil || hfd.Body == nil || hfd == k.fd {
					return true
				}
				pi := 0
				for _, fl := range hfd.Type.Params.List {
					for _, nm := range fl.Names {
						if pi < len(call.Args) {
							if id, ok := unparen(call.Args[pi]).(*ast.Ident); ok && namedOf(info.TypeOf(id)) == k.n && info.ObjectOf(id) != recvObj {
								pobj := info.Defs[nm]
								ast.Inspect(hfd.Body, func(m ast.Node) bool {
									se, ok := m.(*ast.SelectorExpr)
									if !ok {
										return true
									}
									if pid, ok := unparen(se.X).(*ast.Ident); ok && info.ObjectOf(pid) == pobj {
										if sel, ok := info.Selections[se]; ok && sel.Kind() == types.FieldVal {
											argReads[st.Field(sel.Index()[0]).Name()] = true
										}
									}
									return true
								})
							}
						}
						pi++
					}
				}
				return true
			})
		}
		followArg(k.fd.Body, 0)
		comparesStrings := func() bool {
			found := false
			ast.Inspect(k.fd.Body, func(n ast.Node) bool {
				if be, ok := n.(*ast.BinaryExpr); ok && be.Op == token.EQL {
					if strings.HasSuffix(exprString(be.X), ".String()") && strings.HasSuffix(exprString(be.Y), ".String()") {
						found = true
					}
				}
				return true
			})
			return found
		}()
		for i := 0; i < st.NumFields(); i++ {
			f := st.Field(i)
			if !f.Exported() {
				continue
			}
			fk := k.n.Obj().Name() + "." + f.Name()
			if f.Name() == "TypeName" && k.n.Obj().Name() != "StructType" {
				continue // only identified structs are identified by name
			}
			o := Obligation{Key: typeKey(k.n) + ".Equal distinguishes " + f.Name(), Pos: c.pos(k.fd.Pos()), Verdict: OK, Tags: []string{"types"}}
			switch {
			case eqNonIdentity[fk] != "":
				o.Verdict, o.Detail = EXEMPT, eqNonIdentity[fk]
			case recvReads[f.Name()] && argReads[f.Name()]:
				o.Detail = "read on receiver and argument"
			case recvReads[f.Name()] && comparesStrings:
				o.Verdict = EXEMPT
				o.Detail = "this kind compares printed forms (t.String() == u.String()); the field is read by the receiver's printer, and the argument's side is the same printer by dynamic dispatch (frozen exception: pointer kind, to cut recursion)"
			case !recvReads[f.Name()]:
				o.Verdict = VIOL
				o.Detail = fmt.Sprintf("Equal never reads %s: two %s types that differ only in %s compare equal", f.Name(), k.n.Obj().Name(), f.Name())
			default:
				o.Verdict = VIOL
				o.Detail = fmt.Sprintf("Equal reads %s on the receiver but not on the argument", f.Name())
			}
			obs = append(obs, o)
		}
		if st.NumFields() == 1 { // only TypeName: singleton kinds
			obs = append(obs, Obligation{Key: typeKey(k.n) + ".Equal (no identity fields)", Pos: c.pos(k.fd.Pos()), Verdict: OK, Detail: "kind without parameters", Tags: []string{"types"}})
		}
	}
	return obs
}

func ruleEQ2(c *Ctx) []Obligation {
	var obs []Obligation
	info := c.pkg(pkgTYP).TypesInfo
	for _, k := range c.typeKinds() {
		o := Obligation{Key: typeKey(k.n) + ".Equal kind guard", Pos: c.pos(k.fd.Pos()), Verdict: OK, Tags: []string{"types"}}
		asserted := false
		ast.Inspect(k.fd.Body, func(n ast.Node) bool {
			if ta, ok := n.(*ast.TypeAssertExpr); ok && ta.Type != nil {
				if namedOf(info.TypeOf(ta.Type)) == k.n {
					asserted = true
				}
			}
			return true
		})
		// every return is false, or can only be reached / be true when the assertion to the own
		// kind succeeded: inside `if ok {…}`, after `if !ok { return false }`, or `return ok && …`
		lastFalse := asserted
		okObjs := map[types.Object]bool{}
		ast.Inspect(k.fd.Body, func(n ast.Node) bool {
			as, isAs := n.(*ast.AssignStmt)
			if !isAs || len(as.Lhs) != 2 || len(as.Rhs) != 1 {
				return true
			}
			ta, isTA := unparen(as.Rhs[0]).(*ast.TypeAssertExpr)
			if id, isID := as.Lhs[1].(*ast.Ident); isID && isTA && ta.Type != nil && namedOf(info.TypeOf(ta.Type)) == k.n {
				okObjs[info.ObjectOf(id)] = true
			}
			return true
		})
		isOK := func(e ast.Expr) bool {
			id, isID := unparen(e).(*ast.Ident)
			return isID && okObjs[info.ObjectOf(id)]
		}
		epm := buildParents(k.fd.Body)
		ast.Inspect(k.fd.Body, func(n ast.Node) bool {
			r, isRet := n.(*ast.ReturnStmt)
			if !isRet || len(r.Results) != 1 {
				return true
			}
			val := unparen(r.Results[0])
			if exprString(val) == "false" || isOK(val) {
				return true
			}
			// ok && …
			left := val
			for {
				be, isBE := left.(*ast.BinaryExpr)
				if !isBE || be.Op != token.LAND {
					break
				}
				left = unparen(be.X)
			}
			if left != val && isOK(left) {
				return true
			}
			// inside `if ok { … }`
			var child ast.Node = r
			for p := epm[r]; p != nil; child, p = p, epm[p] {
				if is, isIf := p.(*ast.IfStmt); isIf && child == ast.Node(is.Body) && isOK(is.Cond) {
					return true
				}
			}
			// after a guard `if !ok { return false }` in an enclosing statement list
			child = r
			for p := epm[r]; p != nil; child, p = p, epm[p] {
				var list []ast.Stmt
				switch pp := p.(type) {
				case *ast.BlockStmt:
					list = pp.List
				case *ast.CaseClause:
					list = pp.Body
				}
				for _, st := range list {
					if ast.Node(st) == child {
						break
					}
					is, isIf := st.(*ast.IfStmt)
					if !isIf || is.Else != nil || len(is.Body.List) != 1 {
						continue
					}
					ue, isUE := unparen(is.Cond).(*ast.UnaryExpr)
					gr, isGR := is.Body.List[0].(*ast.ReturnStmt)
					if isUE && ue.Op == token.NOT && isOK(ue.X) && isGR && len(gr.Results) == 1 && exprString(gr.Results[0]) == "false" {
						return true
					}
				}
			}
			lastFalse = false
			return true
		})
		switch {
		case asserted && lastFalse:
			o.Detail = "asserts the argument to its own kind, otherwise returns false"
		case !asserted && k.n.Obj().Name() == "PointerType":
			o.Verdict = EXEMPT
			o.Detail = "pointer kind compares printed forms; a non-pointer prints without the trailing `*`, so kinds cannot be confused (frozen exception, reason: cuts recursion through self-referential structs)"
		case !asserted:
			o.Verdict, o.Detail = VIOL, "Equal does not assert its argument to "+k.n.Obj().Name()+": it can report equality across kinds, which breaks symmetry"
		default:
			o.Verdict, o.Detail = VIOL, "Equal does not end in `return false` for arguments of another kind"
		}
		obs = append(obs, o)
	}
	return obs
}

func ruleEQ3(c *Ctx) []Obligation {
	var obs []Obligation
	info := c.pkg(pkgTYP).TypesInfo
	for _, k := range c.typeKinds() {
		if k.n.Obj().Name() != "StructType" {
			continue
		}
		o := Obligation{Key: typeKey(k.n) + ".Equal name cut", Pos: c.pos(k.fd.Pos()), Verdict: OK, Tags: []string{"types"}}
		var cutPos, recPos token.Pos
		var cutCond ast.Expr
		ast.Inspect(k.fd.Body, func(n ast.Node) bool {
			switch n := n.(type) {
			case *ast.IfStmt:
				// if len(t.TypeName) > 0 || len(u.TypeName) > 0 { return t.TypeName == u.TypeName }
				if len(n.Body.List) > 0 {
					if r, ok := n.Body.List[len(n.Body.List)-1].(*ast.ReturnStmt); ok && len(r.Results) == 1 {
						if be, ok := r.Results[0].(*ast.BinaryExpr); ok && be.Op == token.EQL && strings.Contains(exprString(be.X), "TypeName") && strings.Contains(exprString(be.Y), "TypeName") {
							if cutPos == 0 {
								cutPos = n.Pos()
								cutCond = n.Cond
							}
						}
					}
				}
			case *ast.CallExpr:
				if se, ok := n.Fun.(*ast.SelectorExpr); ok && se.Sel.Name == "Equal" {
					if t := info.TypeOf(se.X); t != nil && isNamed(t, pkgTYP, "Type") && recPos == 0 {
						recPos = n.Pos()
					}
				}
			}
			return true
		})
		switch {
		case cutPos == 0:
			o.Verdict, o.Detail = VIOL, "no `if either is named { return names equal }` before the structural comparison: Equal recurses forever on self-referential identified structs"
		case recPos != 0 && recPos < cutPos:
			o.Verdict, o.Detail = VIOL, "Equal recurses into field types before the type-name cut"
		default:
			o.Detail = "type-name comparison returns before the recursion over Fields"
		}
		// the cut applies as soon as either side is named: evaluated for (named, literal) and (literal, named)
		if o.Verdict == OK && cutCond != nil && len(k.fd.Recv.List[0].Names) == 1 {
			recv := k.fd.Recv.List[0].Names[0].Name + ".TypeName"
			var eval func(e ast.Expr, a, b bool) (bool, bool)
			eval = func(e ast.Expr, a, b bool) (bool, bool) {
				e = unparen(e)
				if be, ok := e.(*ast.BinaryExpr); ok && (be.Op == token.LOR || be.Op == token.LAND) {
					x, ok1 := eval(be.X, a, b)
					y, ok2 := eval(be.Y, a, b)
					if !ok1 || !ok2 {
						return false, false
					}
					if be.Op == token.LOR {
						return x || y, true
					}
					return x && y, true
				}
				es := strings.ReplaceAll(exprString(e), " ", "")
				// a predicate method on one of the two types: t.identified() with `return len(t.TypeName) > 0`
				if call, ok := e.(*ast.CallExpr); ok && len(call.Args) == 0 {
					if se, ok := unparen(call.Fun).(*ast.SelectorExpr); ok {
						if pfd := c.funcDecl(calleeOf(info, call)); pfd != nil && pfd.Body != nil && len(pfd.Body.List) == 1 && pfd.Recv != nil && len(pfd.Recv.List[0].Names) == 1 {
							if r, ok := pfd.Body.List[0].(*ast.ReturnStmt); ok && len(r.Results) == 1 {
								rs := strings.ReplaceAll(exprString(r.Results[0]), " ", "")
								if strings.Contains(rs, pfd.Recv.List[0].Names[0].Name+".TypeName") && (strings.HasSuffix(rs, ">0") || strings.HasSuffix(rs, `!=""`) || strings.HasSuffix(rs, "!=0")) {
									if exprString(se.X) == k.fd.Recv.List[0].Names[0].Name {
										return a, true
									}
									return b, true
								}
							}
						}
					}
				}
				if !strings.Contains(es, ".TypeName") || !(strings.HasSuffix(es, ">0") || strings.HasSuffix(es, `!=""`) || strings.HasSuffix(es, "!=0")) {
					return false, false
				}
				if strings.Contains(es, recv) {
					return a, true
				}
				return b, true
			}
			v1, ok1 := eval(cutCond, true, false)
			v2, ok2 := eval(cutCond, false, true)
			if ok1 && ok2 && (!v1 || !v2) {
				o.Verdict, o.Pos = VIOL, c.pos(cutCond.Pos())
				o.Detail = "the name comparison `" + exprString(cutCond) + "` does not apply when only one of the two struct types is identified: an identified struct then compares structurally with a literal one, so %a = {i32} equals {i32} equals %b while %a differs from %b — Equal is not transitive"
			}
		}
		obs = append(obs, o)
	}
	return obs
}

package main

import (
	"go/ast"
	"go/token"
	"go/types"
)

// fieldEvent is one access to a field of a subject value (a receiver or a
// parameter) inside a function, possibly reached through calls that pass the
// subject on.
type fieldEvent struct {
	Field  string
	Pos    token.Pos // position in the root function (the call site for indirect accesses)
	Direct bool      // `subj.F` written in the root function itself
	Write  bool      // the access is an assignment target / address-of / inc-dec
	// Derived: the access happens (at any depth) inside a helper that computes derived
	// information (Type, Sig, Operands, Succs, AssignIDs): it is not part of the printed text
	Derived bool
	// NilTest: the access is an operand of a comparison with nil (a presence test, not output)
	NilTest bool
	Via     string // for indirect accesses: the function in which the field is touched
	Panic   bool   // the access occurs inside the argument of a panic(...) call (diagnostics only)
}

type subjKey struct {
	fn   *types.Func
	subj int
}

// subjectFields returns, in source order, the accesses to fields of the
// subject of fn (subj == -1: the receiver, otherwise the parameter index).
// Calls of methods on the subject, and calls that pass the subject as an
// argument, are followed (the events of the callee are reported at the call
// position, Direct=false). Passing the subject to a fmt function or storing it
// in an interface-typed argument counts as a call of its String method.
func (c *Ctx) subjectFields(fn *types.Func, subj int) []fieldEvent {
	return c.subjectFieldsRec(fn, subj, map[subjKey]bool{})
}

func (c *Ctx) subjectFieldsRec(fn *types.Func, subj int, visiting map[subjKey]bool) []fieldEvent {
	fn = fn.Origin()
	key := subjKey{fn, subj}
	if v, ok := c.memo["subjFields"]; ok {
		if ev, ok := v.(map[subjKey][]fieldEvent)[key]; ok {
			return ev
		}
	} else {
		c.memo["subjFields"] = map[subjKey][]fieldEvent{}
	}
	if visiting[key] {
		return nil
	}
	visiting[key] = true
	defer delete(visiting, key)

	fd := c.funcDecl(fn)
	if fd == nil || fd.Body == nil {
		return nil
	}
	p := c.declPkg[fd]
	info := p.TypesInfo
	sig := fn.Type().(*types.Signature)
	var subjVar *types.Var
	if subj < 0 {
		subjVar = sig.Recv()
		if fd.Recv != nil && len(fd.Recv.List) == 1 && len(fd.Recv.List[0].Names) == 1 {
			subjVar, _ = info.Defs[fd.Recv.List[0].Names[0]].(*types.Var)
		}
	} else if subj < sig.Params().Len() {
		// find the *types.Var defined by the parameter identifier
		i := 0
		for _, f := range fd.Type.Params.List {
			for _, n := range f.Names {
				if i == subj {
					subjVar, _ = info.Defs[n].(*types.Var)
				}
				i++
			}
		}
	}
	if subjVar == nil {
		return nil
	}
	st := structOf(subjVar.Type())
	if st == nil {
		return nil
	}
	isSubj := func(e ast.Expr) bool {
		e = unparen(e)
		if u, ok := e.(*ast.UnaryExpr); ok && u.Op == token.AND {
			e = unparen(u.X)
		}
		if s, ok := e.(*ast.StarExpr); ok {
			e = unparen(s.X)
		}
		id, ok := e.(*ast.Ident)
		return ok && info.ObjectOf(id) == subjVar
	}
	// write targets
	written := map[ast.Expr]bool{}
	markW := func(e ast.Expr) {
		for {
			e = unparen(e)
			written[e] = true
			switch x := e.(type) {
			case *ast.IndexExpr:
				e = x.X
			case *ast.StarExpr:
				e = x.X
			default:
				return
			}
		}
	}
	ast.Inspect(fd.Body, func(n ast.Node) bool {
		switch n := n.(type) {
		case *ast.AssignStmt:
			for _, l := range n.Lhs {
				markW(l)
			}
		case *ast.IncDecStmt:
			markW(n.X)
		case *ast.UnaryExpr:
			if n.Op == token.AND {
				markW(n.X)
			}
		}
		return true
	})

	var panics [][2]token.Pos
	ast.Inspect(fd.Body, func(n ast.Node) bool {
		if call, ok := n.(*ast.CallExpr); ok {
			if id, ok := call.Fun.(*ast.Ident); ok && id.Name == "panic" {
				panics = append(panics, [2]token.Pos{call.Pos(), call.End()})
			}
		}
		return true
	})
	inPanic := func(p token.Pos) bool {
		for _, r := range panics {
			if r[0] <= p && p < r[1] {
				return true
			}
		}
		return false
	}
	var events []fieldEvent
	nilTests := map[ast.Expr]bool{}
	ast.Inspect(fd.Body, func(n ast.Node) bool {
		if be, ok := n.(*ast.BinaryExpr); ok && (be.Op == token.EQL || be.Op == token.NEQ) {
			if id, ok := unparen(be.Y).(*ast.Ident); ok && id.Name == "nil" {
				nilTests[unparen(be.X)] = true
			}
			if id, ok := unparen(be.X).(*ast.Ident); ok && id.Name == "nil" {
				nilTests[unparen(be.Y)] = true
			}
		}
		return true
	})
	stringFn := func() *types.Func {
		if n := namedOf(subjVar.Type()); n != nil {
			m, _, _ := types.LookupFieldOrMethod(types.NewPointer(n), true, n.Obj().Pkg(), "String")
			f, _ := m.(*types.Func)
			return f
		}
		return nil
	}
	follow := func(callee *types.Func, s int, pos token.Pos) {
		if callee == nil {
			return
		}
		for _, e := range c.subjectFieldsRec(callee, s, visiting) {
			// Via names the first hop from the root function (what the root itself calls)
			via := funcKey(callee)
			events = append(events, fieldEvent{Field: e.Field, Pos: pos, Direct: false, Write: e.Write, Via: via, Panic: e.Panic || inPanic(pos),
				Derived: e.Derived || derivedHelpers[callee.Name()]})
		}
	}
	ast.Inspect(fd.Body, func(n ast.Node) bool {
		switch n := n.(type) {
		case *ast.SelectorExpr:
			if !isSubj(n.X) {
				return true
			}
			sel, ok := info.Selections[n]
			if !ok {
				return true
			}
			idx := sel.Index()
			switch sel.Kind() {
			case types.FieldVal:
				events = append(events, fieldEvent{Field: st.Field(idx[0]).Name(), Pos: n.Pos(), Direct: true, Write: written[n], Panic: inPanic(n.Pos()), NilTest: nilTests[ast.Expr(n)]})
			case types.MethodVal:
				if len(idx) > 1 {
					// promoted method: reads the embedded field
					events = append(events, fieldEvent{Field: st.Field(idx[0]).Name(), Pos: n.Pos(), Direct: true, Panic: inPanic(n.Pos())})
				} else if m, ok := sel.Obj().(*types.Func); ok {
					follow(m, -1, n.Pos())
				}
			}
		case *ast.CallExpr:
			callee := calleeOf(info, n)
			for i, a := range n.Args {
				if !isSubj(a) {
					continue
				}
				if callee != nil && callee.Pkg() != nil && c.isLLVM(callee.Pkg().Path()) {
					csig := callee.Type().(*types.Signature)
					pi := i
					if csig.Variadic() && pi >= csig.Params().Len()-1 {
						pi = csig.Params().Len() - 1
					}
					if pi < csig.Params().Len() {
						pt := csig.Params().At(pi).Type()
						if _, isIface := pt.Underlying().(*types.Interface); isIface {
							follow(stringFn(), -1, a.Pos())
							// methods the callee invokes on the interface-typed parameter run on the subject
							if n := namedOf(subjVar.Type()); n != nil {
								for _, mname := range c.methodsCalledOnParam(callee, pi) {
									if m := methodOf(n, mname); m != nil {
										follow(m, -1, a.Pos())
									}
								}
							}
						} else if structOf(pt) != nil {
							follow(callee, pi, a.Pos())
						}
					}
				} else {
					// fmt.Fprintf(buf, "%s", subj) and the like: formats through String()
					follow(stringFn(), -1, a.Pos())
				}
			}
		}
		return true
	})
	c.memo["subjFields"].(map[subjKey][]fieldEvent)[key] = events
	return events
}

// methodOf returns the method named name declared on (or promoted to) *T.
func methodOf(n *types.Named, name string) *types.Func {
	m, _, _ := types.LookupFieldOrMethod(types.NewPointer(n), true, n.Obj().Pkg(), name)
	f, _ := m.(*types.Func)
	return f
}

// declaredMethodOf returns the method only when it is declared on T itself
// (not promoted from an embedded field).
func declaredMethodOf(n *types.Named, name string) *types.Func {
	for i := 0; i < n.NumMethods(); i++ {
		if n.Method(i).Name() == name {
			return n.Method(i)
		}
	}
	return nil
}

// methodsCalledOnParam: names of the methods a function calls directly on its
// i-th parameter (an interface-typed parameter through which a subject is passed).
func (c *Ctx) methodsCalledOnParam(fn *types.Func, i int) []string {
	fd := c.funcDecl(fn)
	if fd == nil || fd.Body == nil {
		return nil
	}
	info := c.declPkg[fd].TypesInfo
	var pv types.Object
	k := 0
	for _, f := range fd.Type.Params.List {
		for _, n := range f.Names {
			if k == i {
				pv = info.Defs[n]
			}
			k++
		}
	}
	if pv == nil {
		return nil
	}
	seen := map[string]bool{}
	var out []string
	ast.Inspect(fd.Body, func(n ast.Node) bool {
		if se, ok := n.(*ast.SelectorExpr); ok {
			if id, ok := unparen(se.X).(*ast.Ident); ok && info.ObjectOf(id) == pv {
				if sel, ok := info.Selections[se]; ok && sel.Kind() == types.MethodVal && !seen[se.Sel.Name] {
					seen[se.Sel.Name] = true
					out = append(out, se.Sel.Name)
				}
			}
		}
		return true
	})
	return out
}

package main

import (
	"fmt"
	"go/ast"
	"go/token"
	"go/types"
	"os"
	"path/filepath"
	"sort"
	"strings"

	"golang.org/x/tools/go/callgraph"
	"golang.org/x/tools/go/callgraph/cha"
	"golang.org/x/tools/go/callgraph/vta"
	"golang.org/x/tools/go/packages"
	"golang.org/x/tools/go/ssa"
	"golang.org/x/tools/go/ssa/ssautil"
)

const (
	modLLVM = "github.com/llir/llvm"
	pkgASM  = modLLVM + "/asm"
	pkgAENM = modLLVM + "/asm/enum"
	pkgIR   = modLLVM + "/ir"
	pkgCONS = modLLVM + "/ir/constant"
	pkgENUM = modLLVM + "/ir/enum"
	pkgMD   = modLLVM + "/ir/metadata"
	pkgTYP  = modLLVM + "/ir/types"
	pkgVAL  = modLLVM + "/ir/value"
	pkgENC  = modLLVM + "/internal/enc"
	pkgGEP  = modLLVM + "/internal/gep"
	pkgNAT  = modLLVM + "/internal/natsort"
	pkgAST  = "github.com/llir/ll/ast"
	pkgLL   = "github.com/llir/ll"
	pkgFLT  = "github.com/mewmew/float"
)

// Ctx is the loaded, type-checked program under analysis.
type Ctx struct {
	errSinkCache  map[*types.Func]int
	errSinkFields map[types.Object]bool
	Repo          string
	Fset          *token.FileSet
	Roots         []*packages.Package          // packages of llir/llvm given on the load line
	All           map[string]*packages.Package // every package of the closure, by path

	// lazily built
	ssaProg  *ssa.Program
	ssaPkgs  map[string]*ssa.Package
	cg       *callgraph.Graph
	allFuncs map[*ssa.Function]bool

	// caches
	funcDecls map[*types.Func]*ast.FuncDecl
	declPkg   map[*ast.FuncDecl]*packages.Package
	memo      map[string]interface{}

	nFiles, nFuncs int
}

func goEnv() []string {
	env := []string{}
	for _, e := range os.Environ() {
		if buildGOOS != "" && (strings.HasPrefix(e, "GOOS=") || strings.HasPrefix(e, "GOARCH=") || strings.HasPrefix(e, "CGO_ENABLED=")) {
			continue
		}
		if strings.HasPrefix(e, "GOFLAGS=") || strings.HasPrefix(e, "GOWORK=") ||
			strings.HasPrefix(e, "GOPROXY=") || strings.HasPrefix(e, "GOSUMDB=") ||
			strings.HasPrefix(e, "GOTOOLCHAIN=") {
			continue
		}
		env = append(env, e)
	}
	env = append(env, "GOFLAGS=-mod=mod", "GOPROXY=off", "GOSUMDB=off", "GOTOOLCHAIN=local", "GOWORK=off")
	if buildGOOS != "" {
		env = append(env, "GOOS="+buildGOOS, "GOARCH="+buildGOARCH, "CGO_ENABLED=0")
	}
	return env
}

// buildGOOS / buildGOARCH select the build configuration the tree is loaded under
// (empty: the host's). The thorough tier repeats the analysis for every entry of
// thoroughConfigs, so that files and constant values that exist only under another
// GOOS / GOARCH (build constraints, 32-bit int) are covered as well.
var buildGOOS, buildGOARCH string

var thoroughConfigs = [][2]string{{"linux", "386"}, {"windows", "amd64"}, {"darwin", "arm64"}}

// loadPatterns are the packages of llir/llvm the checks cover. cmd/ and tools/
// are generators and demos that are not part of the library's behaviour.
var loadPatterns = []string{"./asm/...", "./ir/...", "./internal/..."}

func load(repo string) (*Ctx, error) {
	abs, err := filepath.Abs(repo)
	if err != nil {
		return nil, err
	}
	cfg := &packages.Config{
		Mode:  packages.LoadAllSyntax,
		Dir:   abs,
		Env:   goEnv(),
		Tests: false,
	}
	pkgs, err := packages.Load(cfg, loadPatterns...)
	if err != nil {
		return nil, fmt.Errorf("packages.Load: %v", err)
	}
	if len(pkgs) == 0 {
		return nil, fmt.Errorf("no packages loaded from %s", abs)
	}
	c := &Ctx{Repo: abs, All: map[string]*packages.Package{}, memo: map[string]interface{}{}}
	var errs []string
	packages.Visit(pkgs, nil, func(p *packages.Package) {
		c.All[p.PkgPath] = p
		for _, e := range p.Errors {
			errs = append(errs, fmt.Sprintf("%s: %v", p.PkgPath, e))
		}
	})
	if len(errs) > 0 {
		sort.Strings(errs)
		if len(errs) > 10 {
			errs = errs[:10]
		}
		return nil, fmt.Errorf("load/type errors:\n  %s", strings.Join(errs, "\n  "))
	}
	c.Roots = pkgs
	c.Fset = pkgs[0].Fset
	for _, want := range []string{pkgASM, pkgAENM, pkgIR, pkgCONS, pkgENUM, pkgMD, pkgTYP, pkgVAL, pkgENC, pkgGEP, pkgNAT, pkgAST, pkgLL} {
		p := c.All[want]
		if p == nil || p.Types == nil || len(p.Syntax) == 0 {
			return nil, fmt.Errorf("package %s missing from the loaded program (or without syntax)", want)
		}
	}
	c.funcDecls = map[*types.Func]*ast.FuncDecl{}
	c.declPkg = map[*ast.FuncDecl]*packages.Package{}
	for _, p := range c.All {
		if !c.isOurs(p.PkgPath) {
			continue
		}
		for _, f := range p.Syntax {
			c.nFiles++
			for _, d := range f.Decls {
				if fd, ok := d.(*ast.FuncDecl); ok {
					if obj, ok := p.TypesInfo.Defs[fd.Name].(*types.Func); ok {
						c.funcDecls[obj] = fd
						c.declPkg[fd] = p
						c.nFuncs++
					}
				}
			}
		}
	}
	curCtx = c
	return c, nil
}

// isOurs reports whether the package belongs to the module families whose
// source is part of the analysed behaviour.
func (c *Ctx) isOurs(path string) bool {
	return strings.HasPrefix(path, modLLVM) || strings.HasPrefix(path, pkgLL) || strings.HasPrefix(path, pkgFLT)
}

func (c *Ctx) isLLVM(path string) bool { return strings.HasPrefix(path, modLLVM) }

func (c *Ctx) pkg(path string) *packages.Package { return c.All[path] }

// llvmPkgs returns the packages of llir/llvm in the program, sorted by path.
func (c *Ctx) llvmPkgs() []*packages.Package {
	var out []*packages.Package
	for path, p := range c.All {
		if c.isLLVM(path) {
			out = append(out, p)
		}
	}
	sort.Slice(out, func(i, j int) bool { return out[i].PkgPath < out[j].PkgPath })
	return out
}

// pos formats a position relative to the repository root.
func (c *Ctx) pos(p token.Pos) string {
	if !p.IsValid() {
		return "-"
	}
	pp := c.Fset.Position(p)
	file := pp.Filename
	if rel, err := filepath.Rel(c.Repo, file); err == nil && !strings.HasPrefix(rel, "..") {
		file = rel
	} else if i := strings.Index(file, "/pkg/mod/"); i >= 0 {
		file = file[i+len("/pkg/mod/"):]
	}
	return fmt.Sprintf("%s:%d", file, pp.Line)
}

// funcDecl returns the declaration of fn when its source is loaded.
func (c *Ctx) funcDecl(fn *types.Func) *ast.FuncDecl {
	if fn == nil {
		return nil
	}
	return c.funcDecls[fn.Origin()]
}

// eachFunc visits every function declaration of package path in source order.
func (c *Ctx) eachFunc(path string, f func(p *packages.Package, fd *ast.FuncDecl, obj *types.Func)) {
	p := c.All[path]
	if p == nil {
		return
	}
	for _, file := range p.Syntax {
		for _, d := range file.Decls {
			if fd, ok := d.(*ast.FuncDecl); ok && fd.Body != nil {
				if obj, ok := p.TypesInfo.Defs[fd.Name].(*types.Func); ok {
					f(p, fd, obj)
				}
			}
		}
	}
}

// printerDecl: the declaration that does the printing for fn. A printer that only delegates —
// `func (x *T) LLString() string { return x.llStringIndent(defaultIndent) }` — is followed to
// the same-receiver method it returns the result of (at most two hops).
func (c *Ctx) printerDecl(fn *types.Func) (*ast.FuncDecl, *types.Func) {
	fd := c.funcDecl(fn)
	for hop := 0; hop < 2 && fd != nil && fd.Body != nil; hop++ {
		if len(fd.Body.List) != 1 || fd.Recv == nil || len(fd.Recv.List) != 1 || len(fd.Recv.List[0].Names) != 1 {
			break
		}
		r, ok := fd.Body.List[0].(*ast.ReturnStmt)
		if !ok || len(r.Results) != 1 {
			break
		}
		call, ok := unparen(r.Results[0]).(*ast.CallExpr)
		if !ok {
			break
		}
		info := c.declPkg[fd].TypesInfo
		se, ok := unparen(call.Fun).(*ast.SelectorExpr)
		if !ok {
			break
		}
		id, ok := unparen(se.X).(*ast.Ident)
		if !ok || info.ObjectOf(id) != info.Defs[fd.Recv.List[0].Names[0]] {
			break
		}
		callee := calleeOf(info, call)
		cfd := c.funcDecl(callee)
		if cfd == nil || cfd == fd {
			break
		}
		fd, fn = cfd, callee
	}
	return fd, fn
}

// lookupFunc finds a package-level function or a method "T.M" / "(*T).M" by name.
func (c *Ctx) lookupFunc(path, name string) *types.Func {
	p := c.All[path]
	if p == nil {
		return nil
	}
	if i := strings.Index(name, "."); i >= 0 {
		tn := strings.Trim(name[:i], "(*)")
		obj, _ := p.Types.Scope().Lookup(tn).(*types.TypeName)
		if obj == nil {
			return nil
		}
		m, _, _ := types.LookupFieldOrMethod(types.NewPointer(obj.Type()), true, p.Types, name[i+1:])
		fn, _ := m.(*types.Func)
		return fn
	}
	fn, _ := p.Types.Scope().Lookup(name).(*types.Func)
	return fn
}

func (c *Ctx) lookupType(path, name string) *types.TypeName {
	p := c.All[path]
	if p == nil {
		return nil
	}
	tn, _ := p.Types.Scope().Lookup(name).(*types.TypeName)
	return tn
}

// funcKey gives a stable, human-readable name for a function object.
func funcKey(fn *types.Func) string {
	if fn == nil {
		return "<nil>"
	}
	sig, _ := fn.Type().(*types.Signature)
	pk := ""
	if fn.Pkg() != nil {
		pk = shortPkg(fn.Pkg().Path())
	}
	if sig != nil && sig.Recv() != nil {
		t := sig.Recv().Type()
		ptr := ""
		if p, ok := t.(*types.Pointer); ok {
			t = p.Elem()
			ptr = "*"
		}
		name := "?"
		if n, ok := t.(*types.Named); ok {
			name = n.Obj().Name()
		}
		return fmt.Sprintf("%s.(%s%s).%s", pk, ptr, name, fn.Name())
	}
	return pk + "." + fn.Name()
}

func shortPkg(path string) string {
	switch {
	case path == pkgAST:
		return "ast"
	case strings.HasPrefix(path, modLLVM+"/"):
		return strings.TrimPrefix(path, modLLVM+"/")
	}
	return path
}

// typeKey renders a type with short package qualifiers.
func typeKey(t types.Type) string {
	return types.TypeString(t, func(p *types.Package) string { return shortPkg(p.Path()) })
}

// namedOf strips pointers and returns the named type, if any.
func namedOf(t types.Type) *types.Named {
	for {
		switch tt := t.(type) {
		case *types.Pointer:
			t = tt.Elem()
		case *types.Named:
			// universe types (error, comparable) have no package: nothing the rules look for
			// is one of them, and every caller dereferences Obj().Pkg()
			if tt.Obj() == nil || tt.Obj().Pkg() == nil {
				return nil
			}
			return tt
		case *types.Alias:
			t = types.Unalias(tt)
		default:
			return nil
		}
	}
}

func isNamed(t types.Type, path, name string) bool {
	n := namedOf(t)
	return n != nil && n.Obj().Pkg() != nil && n.Obj().Pkg().Path() == path && n.Obj().Name() == name
}

func structOf(t types.Type) *types.Struct {
	n := namedOf(t)
	if n == nil {
		if p, ok := t.(*types.Pointer); ok {
			t = p.Elem()
		}
		s, _ := t.Underlying().(*types.Struct)
		return s
	}
	s, _ := n.Underlying().(*types.Struct)
	return s
}

// ---------------------------------------------------------------------------
// SSA and call graph (built on demand).

func (c *Ctx) SSA() *ssa.Program {
	if c.ssaProg != nil {
		return c.ssaProg
	}
	var initial []*packages.Package
	for _, p := range c.All {
		initial = append(initial, p)
	}
	sort.Slice(initial, func(i, j int) bool { return initial[i].PkgPath < initial[j].PkgPath })
	prog, pkgs := ssautil.Packages(initial, ssa.InstantiateGenerics)
	prog.Build()
	c.ssaProg = prog
	c.ssaPkgs = map[string]*ssa.Package{}
	for i, p := range pkgs {
		if p != nil {
			c.ssaPkgs[initial[i].PkgPath] = p
		}
	}
	c.allFuncs = ssautil.AllFunctions(prog)
	return prog
}

func (c *Ctx) CallGraph() *callgraph.Graph {
	if c.cg != nil {
		return c.cg
	}
	prog := c.SSA()
	c.cg = vta.CallGraph(c.allFuncs, cha.CallGraph(prog))
	return c.cg
}

// ssaFunc returns the SSA function of a source-level function object.
func (c *Ctx) ssaFunc(fn *types.Func) *ssa.Function {
	if fn == nil {
		return nil
	}
	return c.SSA().FuncValue(fn)
}

// ---------------------------------------------------------------------------
// small AST helpers

func unparen(e ast.Expr) ast.Expr {
	for {
		p, ok := e.(*ast.ParenExpr)
		if !ok {
			return e
		}
		e = p.X
	}
}

// calleeOf resolves the statically called function of a call expression.
func calleeOf(info *types.Info, call *ast.CallExpr) *types.Func {
	fun := unparen(call.Fun)
	switch f := fun.(type) {
	case *ast.Ident:
		fn, _ := info.Uses[f].(*types.Func)
		return fn
	case *ast.SelectorExpr:
		if sel, ok := info.Selections[f]; ok {
			fn, _ := sel.Obj().(*types.Func)
			return fn
		}
		fn, _ := info.Uses[f.Sel].(*types.Func)
		return fn
	case *ast.IndexExpr:
		if id, ok := f.X.(*ast.Ident); ok {
			fn, _ := info.Uses[id].(*types.Func)
			return fn
		}
	}
	return nil
}

func isPkgFunc(fn *types.Func, path, name string) bool {
	return fn != nil && fn.Pkg() != nil && fn.Pkg().Path() == path && fn.Name() == name
}

func exprString(e ast.Expr) string { return types.ExprString(e) }

func sortedKeys[V any](m map[string]V) []string {
	out := make([]string, 0, len(m))
	for k := range m {
		out = append(out, k)
	}
	sort.Strings(out)
	return out
}

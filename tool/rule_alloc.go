package main

import (
	"fmt"
	"go/ast"
	"go/token"
	"go/types"
	"sort"
	"strings"

	"golang.org/x/tools/go/packages"
	"golang.org/x/tools/go/ssa"
)

// C04 — references are the defining objects: ALLOC, TODO, SCOPE, PHASE, PARENT.

func init() {
	register(&Rule{
		Name:  "ALLOC",
		Doc:   "every object of a definition type that package asm allocates (global, function, alias, ifunc, parameter, block, instruction, terminator, comdat, attribute group, named metadata, named type) flows — through returns, interface conversions and calls — into a registering sink (an index map of the generator, a function's Blocks/Params, a block's Insts/Term); an object that only reaches operand fields is a placeholder that uses would be bound to instead of the definition (frozen exception: the blockaddress placeholder, discharged by TODO)",
		Floor: 70,
		NeedS: true,
		Run:   ruleALLOC,
	})
	register(&Rule{
		Name:  "TODO",
		Doc:   "the blockaddress placeholder block is queued on the generator's work list by the function that creates it; translate drains the whole list before its success return; the fixer replaces the placeholder on every success path by a block found in the function's own Blocks, and fails with an error otherwise",
		Floor: 3,
		Run:   ruleTODO,
	})
	register(&Rule{
		Name:  "SCOPE",
		Doc:   "the table of local values belongs to one function translation: it is created only in the funcGen constructor, which is called only with the function being translated, and it is indexed only through the method receiver, so a local identifier can never resolve in another function's table",
		Floor: 6,
		Run:   ruleSCOPE,
	})
	register(&Rule{
		Name:  "PHASE",
		Doc:   "in translate, every step whose call closure looks up an index of definitions (a use) comes after every step whose closure fills that index by ranging over all definitions (scaffold-then-fill: all names have their final object before uses are resolved)",
		Floor: 4,
		NeedS: true,
		Run:   rulePHASE,
	})
	register(&Rule{
		Name:  "PARENT",
		Doc:   "every block and function object that package asm allocates for the module gets its Parent link at creation (literal key or assignment in the allocating function): block → function being translated, function → module being built",
		Floor: 2,
		Run:   rulePARENT,
	})
}

// isDefinitionType classifies the IR types whose objects are definitions.
func (c *Ctx) isDefinitionType(n *types.Named) bool {
	if n == nil || n.Obj().Pkg() == nil {
		return false
	}
	path, name := n.Obj().Pkg().Path(), n.Obj().Name()
	switch path {
	case pkgIR:
		switch name {
		case "Global", "Func", "Alias", "IFunc", "Param", "Block", "ComdatDef", "AttrGroupDef":
			return true
		}
		return strings.HasPrefix(name, "Inst") || strings.HasPrefix(name, "Term")
	case pkgMD:
		return name == "NamedDef"
	}
	return false
}

type sinkSet map[string]bool

// flow follows an allocated value to the places it is stored.
type flowState struct {
	c     *Ctx
	seen  map[ssa.Value]bool
	sinks sinkSet
	depth int
}

func fieldSinkName(fa *ssa.FieldAddr) string {
	st := fa.X.Type().Underlying().(*types.Pointer).Elem()
	if s, ok := st.Underlying().(*types.Struct); ok {
		return namedKey(st) + "." + s.Field(fa.Field).Name()
	}
	return namedKey(st) + ".?"
}

func (fs *flowState) follow(v ssa.Value, depth int) {
	if v == nil || fs.seen[v] || depth > 6 {
		return
	}
	fs.seen[v] = true
	refs := v.Referrers()
	if refs == nil {
		return
	}
	for _, r := range *refs {
		switch r := r.(type) {
		case *ssa.MakeInterface:
			fs.follow(r, depth)
		case *ssa.ChangeInterface:
			fs.follow(r, depth)
		case *ssa.ChangeType:
			fs.follow(r, depth)
		case *ssa.Convert:
			fs.follow(r, depth)
		case *ssa.Phi:
			fs.follow(r, depth)
		case *ssa.TypeAssert:
			fs.follow(r, depth)
		case *ssa.Extract:
			fs.follow(r, depth)
		case *ssa.Store:
			if r.Val != v {
				continue
			}
			switch a := r.Addr.(type) {
			case *ssa.FieldAddr:
				fs.sinks["field "+fieldSinkName(a)] = true
			case *ssa.IndexAddr:
				name := "elem " + typeKey(a.X.Type())
				fromField := false
				if u, ok := a.X.(*ssa.UnOp); ok && u.Op == token.MUL {
					if fa, ok := u.X.(*ssa.FieldAddr); ok {
						name = "elem " + fieldSinkName(fa) + "[]"
						fromField = true
					}
				}
				if !fromField && depth < 6 {
					// an element of a local slice (insts[i] = inst): the object goes where the slice
					// goes — returned to the caller, stored into block.Insts …
					sub := &flowState{c: fs.c, seen: map[ssa.Value]bool{}, sinks: sinkSet{}}
					sub.follow(a.X, depth+1)
					carried := false
					for sk := range sub.sinks {
						if strings.HasPrefix(sk, "field ") {
							fs.sinks["elem "+strings.TrimPrefix(sk, "field ")+"[]"] = true
							carried = true
						} else if strings.HasPrefix(sk, "elem ") || strings.HasPrefix(sk, "map ") {
							fs.sinks[sk] = true
							carried = true
						}
					}
					if carried {
						continue
					}
				}
				fs.sinks[name] = true
			case *ssa.Alloc:
				// spilled local: follow the loads of the cell
				for _, ar := range *a.Referrers() {
					if ld, ok := ar.(*ssa.UnOp); ok && ld.Op == token.MUL && ld.X == a {
						fs.follow(ld, depth)
					}
				}
			case *ssa.Global:
				fs.sinks["global "+a.String()] = true
			default:
				fs.sinks["deref "+typeKey(r.Addr.Type())] = true
			}
		case *ssa.MapUpdate:
			if r.Value != v {
				continue
			}
			name := "map " + typeKey(r.Map.Type())
			if u, ok := r.Map.(*ssa.UnOp); ok && u.Op == token.MUL {
				if fa, ok := u.X.(*ssa.FieldAddr); ok {
					name = "map " + fieldSinkName(fa)
				}
			}
			fs.sinks[name] = true
		case *ssa.Return:
			fn := r.Parent()
			idx := -1
			for i, res := range r.Results {
				if res == v {
					idx = i
				}
			}
			if idx < 0 {
				continue
			}
			node := fs.c.CallGraph().Nodes[fn]
			if node == nil {
				continue
			}
			for _, in := range node.In {
				if in.Site == nil {
					continue
				}
				cv := in.Site.Value()
				if cv == nil {
					continue
				}
				if len(r.Results) == 1 {
					fs.follow(cv, depth+1)
				} else {
					if cr := cv.Referrers(); cr != nil {
						for _, x := range *cr {
							if ex, ok := x.(*ssa.Extract); ok && ex.Index == idx {
								fs.follow(ex, depth+1)
							}
						}
					}
				}
			}
		case *ssa.Call:
			fs.followCall(r, &r.Call, v, depth)
		case *ssa.Defer:
			fs.followCall(nil, &r.Call, v, depth)
		case *ssa.Slice:
			fs.follow(r, depth)
		}
	}
}

func (fs *flowState) followCall(callVal *ssa.Call, cc *ssa.CallCommon, v ssa.Value, depth int) {
	if b, ok := cc.Value.(*ssa.Builtin); ok {
		if b.Name() == "append" && callVal != nil {
			// append(s, v...) — v is an element (possibly via a varargs slice): the result slice carries it
			fs.follow(callVal, depth)
		}
		return
	}
	callee := cc.StaticCallee()
	if callee == nil || callee.Blocks == nil {
		// dynamic or external call: the value escapes into unknown code
		for _, a := range cc.Args {
			if a == v {
				fs.sinks["arg of "+cc.Value.Name()] = true
			}
		}
		return
	}
	for i, a := range cc.Args {
		if a == v && i < len(callee.Params) {
			fs.follow(callee.Params[i], depth+1)
		}
	}
}

func isRegisteringSink(s string) bool {
	switch {
	case strings.HasPrefix(s, "map asm.newIndex."), strings.HasPrefix(s, "map asm.funcGen.locals"):
		return true
	case s == "elem ir.Func.Blocks[]", s == "elem ir.Func.Params[]", s == "elem ir.Block.Insts[]", s == "field ir.Block.Term":
		return true
	case strings.HasPrefix(s, "elem ir.Module.") || strings.HasPrefix(s, "field ir.Module."):
		return true
	}
	return false
}

func ruleALLOC(c *Ctx) []Obligation {
	var obs []Obligation
	prog := c.SSA()
	pkg := c.ssaPkgs[pkgASM]
	if pkg == nil {
		return []Obligation{{Key: "asm SSA", Verdict: UNDECIDED, Detail: "no SSA package for asm"}}
	}
	_ = prog
	var fns []*ssa.Function
	for fn := range c.allFuncs {
		p := fn.Pkg
		if p == nil && fn.Parent() != nil {
			p = fn.Parent().Pkg
		}
		if p == pkg && fn.Blocks != nil {
			fns = append(fns, fn)
		}
	}
	sort.Slice(fns, func(i, j int) bool { return fns[i].String() < fns[j].String() })
	for _, fn := range fns {
		ord := map[string]int{}
		for _, b := range fn.Blocks {
			for _, in := range b.Instrs {
				var val ssa.Value
				var n *types.Named
				switch x := in.(type) {
				case *ssa.Alloc:
					if !x.Heap {
						continue
					}
					n = namedOf(x.Type())
					val = x
				case *ssa.Call:
					// constructors of definition types called from asm (ir.NewParam, ir.NewBlock, ...)
					if callee := x.Call.StaticCallee(); callee != nil && callee.Pkg != nil && c.isLLVM(callee.Pkg.Pkg.Path()) && callee.Pkg != pkg && strings.HasPrefix(callee.Name(), "New") {
						if rs := callee.Signature.Results(); rs.Len() == 1 {
							n = namedOf(rs.At(0).Type())
							val = x
						}
					}
				}
				if n == nil || !c.isDefinitionType(n) {
					continue
				}
				key := fmt.Sprintf("%s allocates %s", shortFn(fn), typeKey(n))
				ord[key]++
				if ord[key] > 1 {
					key += fmt.Sprintf("#%d", ord[key])
				}
				fs := &flowState{c: c, seen: map[ssa.Value]bool{}, sinks: sinkSet{}}
				fs.follow(val, 0)
				var reg, other []string
				for s := range fs.sinks {
					if isRegisteringSink(s) {
						reg = append(reg, s)
					} else {
						other = append(other, s)
					}
				}
				sort.Strings(reg)
				sort.Strings(other)
				o := Obligation{Key: key, Pos: c.pos(in.Pos()), Verdict: OK}
				switch {
				case len(reg) > 0:
					o.Detail = "registered in " + strings.Join(reg, ", ")
				case typeKey(n) == "ir.Block" && len(other) > 0:
					// the blockaddress placeholder: allowed only when it flows into a BlockAddress constant
					isBA := false
					for _, s := range other {
						if s == "field ir/constant.BlockAddress.Block" {
							isBA = true
						}
					}
					if isBA {
						o.Verdict, o.Detail = EXEMPT, "blockaddress placeholder (carries only the target's name); its replacement is obligation TODO"
					} else {
						o.Verdict, o.Detail = VIOL, fmt.Sprintf("a block that is not registered in the function reaches %v: uses are bound to a placeholder instead of the defining block", other)
					}
				default:
					o.Verdict = VIOL
					if len(other) == 0 {
						o.Detail = fmt.Sprintf("a %s is allocated but reaches no index or container: the definition is lost", typeKey(n))
					} else {
						o.Detail = fmt.Sprintf("a %s is allocated outside the scaffold phase and reaches only %v: a use is bound to this fresh object instead of the object the module lists as the definition", typeKey(n), other)
					}
				}
				obs = append(obs, o)
			}
		}
	}
	return obs
}

// ---------------------------------------------------------------------------

// carriesBlockAddress: a work-list entry that is a small struct holding the blockaddress
// constant next to bookkeeping (its AST node, a position).
func carriesBlockAddress(t types.Type) bool {
	if t == nil {
		return false
	}
	if p, ok := t.(*types.Pointer); ok {
		t = p.Elem()
	}
	st, ok := t.Underlying().(*types.Struct)
	if !ok {
		return false
	}
	for i := 0; i < st.NumFields(); i++ {
		if typeKey(st.Field(i).Type()) == "*ir/constant.BlockAddress" {
			return true
		}
	}
	return false
}

func ruleTODO(c *Ctx) []Obligation {
	var obs []Obligation
	pa := c.pkg(pkgASM)
	info := pa.TypesInfo
	// 1. every function that stores into constant.BlockAddress.Block a block it allocated queues the constant
	c.eachFunc(pkgASM, func(p *packages.Package, fd *ast.FuncDecl, fn *types.Func) {
		var placeholder *ast.CompositeLit
		ast.Inspect(fd.Body, func(nd ast.Node) bool {
			if cl, ok := nd.(*ast.CompositeLit); ok && typeKey(info.TypeOf(cl)) == "ir.Block" {
				// a Block literal without Parent in a function that does not fill Func.Blocks
				placeholder = cl
			}
			return true
		})
		if placeholder == nil {
			return
		}
		fillsBlocks := false
		ast.Inspect(fd.Body, func(nd ast.Node) bool {
			if as, ok := nd.(*ast.AssignStmt); ok {
				for _, l := range as.Lhs {
					if n, f := c.irFieldOf(info, l); n != nil && typeKey(n) == "ir.Func" && f.Name() == "Blocks" {
						fillsBlocks = true
					}
				}
			}
			return true
		})
		if fillsBlocks {
			return
		}
		// a placeholder is a block that goes into a blockaddress constant; a block that the
		// function builds for its caller to list (newBlock → f.Blocks[i]) is not one
		intoBlockAddress := false
		ast.Inspect(fd.Body, func(nd ast.Node) bool {
			switch x := nd.(type) {
			case *ast.CallExpr:
				if f := calleeOf(info, x); f != nil && f.Pkg() != nil && f.Pkg().Path() == pkgCONS && f.Name() == "NewBlockAddress" {
					intoBlockAddress = true
				}
			case *ast.CompositeLit:
				if typeKey(info.TypeOf(x)) == "ir/constant.BlockAddress" {
					intoBlockAddress = true
				}
			case *ast.AssignStmt:
				for _, l := range x.Lhs {
					if se, ok := unparen(l).(*ast.SelectorExpr); ok && se.Sel.Name == "Block" && strings.HasSuffix(typeKey(info.TypeOf(se.X)), "constant.BlockAddress") {
						intoBlockAddress = true
					}
				}
			}
			return true
		})
		if !intoBlockAddress {
			return
		}
		o := Obligation{Key: funcKey(fn) + " queues its placeholder block", Pos: c.pos(placeholder.Pos()), Verdict: VIOL,
			Detail: "a placeholder block is created but the constant holding it is not appended to the generator's work list: the placeholder survives in the returned module"}
		// the placeholder variable → the constant built from it → appended to generator.todo
		ast.Inspect(fd.Body, func(nd ast.Node) bool {
			as, ok := nd.(*ast.AssignStmt)
			if !ok || len(as.Lhs) != 1 || len(as.Rhs) != 1 {
				return true
			}
			if mapFieldName(info, as.Lhs[0]) == "generator.todo" {
				if call, ok := as.Rhs[0].(*ast.CallExpr); ok && exprString(call.Fun) == "append" && len(call.Args) == 2 && exprString(call.Args[0]) == exprString(as.Lhs[0]) {
					if typeKey(info.TypeOf(call.Args[1])) == "*ir/constant.BlockAddress" || carriesBlockAddress(info.TypeOf(call.Args[1])) {
						o.Verdict, o.Detail, o.Pos = OK, "the blockaddress constant is appended to generator.todo", c.pos(as.Pos())
					}
				}
			}
			return true
		})
		// the append must not be conditional
		if o.Verdict == OK {
			pm := buildParents(fd.Body)
			ast.Inspect(fd.Body, func(nd ast.Node) bool {
				as, ok := nd.(*ast.AssignStmt)
				if !ok || len(as.Lhs) != 1 || mapFieldName(info, as.Lhs[0]) != "generator.todo" {
					return true
				}
				if _, top := pm[as].(*ast.BlockStmt); !top || pm[pm[as]] != ast.Node(fd) && pm[as] != ast.Node(fd.Body) {
					o.Verdict, o.Detail = VIOL, "the work-list append is conditional: some placeholders are not queued"
				}
				return true
			})
		}
		obs = append(obs, o)
	})
	// 2. translate drains generator.todo before its success return
	tfn := c.lookupFunc(pkgASM, "translate")
	tfd := c.funcDecl(tfn)
	o2 := Obligation{Key: "asm.translate drains the work list before returning the module", Verdict: VIOL, Detail: "no loop over generator.todo at the top level of translate or of a phase function it runs"}
	var fixer *types.Func
	if tfd != nil {
		o2.Pos = c.pos(tfd.Pos())
		_, drainPos, drainFd, rs := c.translatePhases()
		if rs != nil {
			// the body calls a function with the element and propagates its error
			ast.Inspect(rs.Body, func(nd ast.Node) bool {
				if call, ok := nd.(*ast.CallExpr); ok && len(call.Args) == 1 && rs.Value != nil && (exprString(call.Args[0]) == exprString(rs.Value) || strings.HasPrefix(exprString(call.Args[0]), exprString(rs.Value)+".") && strings.HasSuffix(typeKey(info.TypeOf(call.Args[0])), "constant.BlockAddress")) {
					if f := calleeOf(info, call); f != nil && f.Pkg() != nil && f.Pkg().Path() == pkgASM {
						fixer = f
					}
				}
				return true
			})
			if fixer != nil {
				o2.Verdict, o2.Pos = OK, c.pos(drainPos)
				where := "in translate"
				if drainFd != tfd {
					where = "in the phase function " + drainFd.Name.Name
				}
				o2.Detail = "for every queued constant: " + fixer.Name() + "(c), error propagated (ERR), " + where + ", before `return gen.m, nil`"
			}
		}
	} else {
		o2.Verdict, o2.Detail = UNDECIDED, "asm.translate not found"
	}
	obs = append(obs, o2)
	// 3. the fixer
	o3 := Obligation{Key: "the fixer replaces the placeholder by a block of the function", Verdict: UNDECIDED, Detail: "fixer not identified"}
	if fixer != nil {
		ffd := c.funcDecl(fixer)
		o3.Pos = c.pos(ffd.Pos())
		o3.Verdict, o3.Detail = VIOL, "the fixer does not end in `c.Block = <found block>; return nil`"
		list := ffd.Body.List
		if len(list) >= 2 {
			as, ok1 := list[len(list)-2].(*ast.AssignStmt)
			r, ok2 := list[len(list)-1].(*ast.ReturnStmt)
			if ok1 && ok2 && len(as.Lhs) == 1 && len(r.Results) == 1 && exprString(r.Results[0]) == "nil" {
				if n, f := c.irFieldOf(info, as.Lhs[0]); n != nil && typeKey(n) == "ir/constant.BlockAddress" && f.Name() == "Block" {
					// the assigned value comes from a search function over f.Blocks
					src := exprString(as.Rhs[0])
					okSearch := false
					defs := collectDefs(info, ffd.Body)
					if id, ok := unparen(as.Rhs[0]).(*ast.Ident); ok {
						for _, d := range defs[info.ObjectOf(id)] {
							if call, ok := d.(*ast.CallExpr); ok {
								if sf := calleeOf(info, call); sf != nil && c.returnsElementOfBlocks(sf) {
									okSearch = true
									src = sf.Name() + "(…)"
								}
							}
						}
					}
					// all other returns are error returns
					others := true
					ast.Inspect(ffd.Body, func(nd ast.Node) bool {
						if rr, ok := nd.(*ast.ReturnStmt); ok && rr != r {
							if !returnsError(info, []ast.Stmt{rr}) {
								others = false
							}
						}
						return true
					})
					switch {
					case !okSearch:
						o3.Detail = "the value assigned to c.Block is not the result of a search over the function's own Blocks"
					case !others:
						o3.Detail = "the fixer has a success return that does not replace the placeholder"
					default:
						o3.Verdict, o3.Detail = OK, "c.Block = "+src+" on the only success path; every other return is an error"
					}
				}
			}
		}
	}
	obs = append(obs, o3)
	return obs
}

// returnsElementOfBlocks: the function ranges over X.Blocks and returns the range value, and otherwise returns an error.
func (c *Ctx) returnsElementOfBlocks(fn *types.Func) bool {
	fd := c.funcDecl(fn)
	if fd == nil {
		return false
	}
	info := c.declPkg[fd].TypesInfo
	found := false
	ast.Inspect(fd.Body, func(nd ast.Node) bool {
		rs, ok := nd.(*ast.RangeStmt)
		if !ok || rs.Value == nil {
			return true
		}
		if n, f := c.irFieldOf(info, rs.X); n == nil || typeKey(n) != "ir.Func" || f.Name() != "Blocks" {
			return true
		}
		ast.Inspect(rs.Body, func(m ast.Node) bool {
			if r, ok := m.(*ast.ReturnStmt); ok && len(r.Results) >= 1 && exprString(r.Results[0]) == exprString(rs.Value) {
				found = true
			}
			return true
		})
		return true
	})
	if !found {
		return false
	}
	// every return outside the loop is an error return
	ok := true
	for _, st := range fd.Body.List {
		if r, isRet := st.(*ast.ReturnStmt); isRet && !returnsError(info, []ast.Stmt{r}) {
			ok = false
		}
	}
	return ok
}

// ---------------------------------------------------------------------------

func ruleSCOPE(c *Ctx) []Obligation {
	var obs []Obligation
	pa := c.pkg(pkgASM)
	info := pa.TypesInfo
	fg := c.lookupType(pkgASM, "funcGen")
	if fg == nil {
		return []Obligation{{Key: "asm.funcGen", Verdict: UNDECIDED, Detail: "type not found"}}
	}
	// 1. allocation sites of funcGen, and writes of its locals field
	allocs, writes := 0, 0
	var ctor *types.Func
	c.eachFunc(pkgASM, func(p *packages.Package, fd *ast.FuncDecl, fn *types.Func) {
		ast.Inspect(fd.Body, func(nd ast.Node) bool {
			switch nd := nd.(type) {
			case *ast.CompositeLit:
				if namedOf(info.TypeOf(nd)) == fg.Type() {
					allocs++
					ctor = fn
					o := Obligation{Key: funcKey(fn) + " creates funcGen with a fresh locals table", Pos: c.pos(nd.Pos()), Verdict: VIOL, Detail: "the locals table is not created by make in the literal"}
					for _, el := range nd.Elts {
						if kv, ok := el.(*ast.KeyValueExpr); ok && exprString(kv.Key) == "locals" && strings.HasPrefix(exprString(kv.Value), "make(") {
							o.Verdict, o.Detail = OK, "locals: make(...)"
						}
					}
					obs = append(obs, o)
				}
			case *ast.AssignStmt:
				for _, l := range nd.Lhs {
					if mapFieldName(info, l) == "funcGen.locals" {
						writes++
						obs = append(obs, Obligation{Key: fmt.Sprintf("%s reassigns funcGen.locals #%d", funcKey(fn), writes), Pos: c.pos(nd.Pos()), Verdict: VIOL,
							Detail: "the table of locals is replaced after construction: identifiers of another function could become visible"})
					}
				}
			}
			return true
		})
	})
	if allocs != 1 {
		obs = append(obs, Obligation{Key: "funcGen allocation sites", Verdict: VIOL, Detail: fmt.Sprintf("%d allocation sites of funcGen; expected the single constructor", allocs)})
	}
	// 2. constructor call sites: called with the *ir.Func the caller translates (a parameter of the caller)
	if ctor != nil {
		n := 0
		c.eachFunc(pkgASM, func(p *packages.Package, fd *ast.FuncDecl, fn *types.Func) {
			ast.Inspect(fd.Body, func(nd ast.Node) bool {
				call, ok := nd.(*ast.CallExpr)
				if !ok || calleeOf(info, call) != ctor {
					return true
				}
				n++
				o := Obligation{Key: fmt.Sprintf("%s calls the funcGen constructor", funcKey(fn)), Pos: c.pos(call.Pos()), Verdict: VIOL, Detail: "the function passed is not the caller's own *ir.Func parameter"}
				for _, a := range call.Args {
					if id, ok := unparen(a).(*ast.Ident); ok && typeKey(info.TypeOf(id)) == "*ir.Func" {
						if v, ok := info.ObjectOf(id).(*types.Var); ok {
							sig := fn.Type().(*types.Signature)
							for i := 0; i < sig.Params().Len(); i++ {
								if sig.Params().At(i).Name() == v.Name() && v.Pos() < fd.Body.Pos() {
									o.Verdict, o.Detail = OK, "newFuncGen(gen, "+id.Name+") with the function being translated"
								}
							}
						}
					}
				}
				obs = append(obs, o)
				return true
			})
		})
		if n != 1 {
			obs = append(obs, Obligation{Key: "funcGen constructor call sites", Verdict: VIOL, Detail: fmt.Sprintf("%d call sites; expected one per function definition translator", n)})
		}
	}
	// 3. every index of funcGen.locals goes through the method receiver
	c.eachFunc(pkgASM, func(p *packages.Package, fd *ast.FuncDecl, fn *types.Func) {
		var recvObj types.Object
		if fd.Recv != nil && len(fd.Recv.List) == 1 && len(fd.Recv.List[0].Names) == 1 {
			recvObj = info.Defs[fd.Recv.List[0].Names[0]]
		}
		k := 0
		ast.Inspect(fd.Body, func(nd ast.Node) bool {
			ix, ok := nd.(*ast.IndexExpr)
			if !ok || mapFieldName(info, ix.X) != "funcGen.locals" {
				return true
			}
			k++
			o := Obligation{Key: fmt.Sprintf("%s indexes locals #%d", funcKey(fn), k), Pos: c.pos(ix.Pos()), Verdict: OK, Detail: "through the receiver"}
			se := unparen(ix.X).(*ast.SelectorExpr)
			if id, ok := unparen(se.X).(*ast.Ident); !ok || recvObj == nil || info.ObjectOf(id) != recvObj {
				o.Verdict, o.Detail = VIOL, "locals of a funcGen other than the receiver are indexed: a local identifier can resolve in another function's table"
			}
			obs = append(obs, o)
			return true
		})
	})
	return obs
}

// ---------------------------------------------------------------------------

func rulePHASE(c *Ctx) []Obligation {
	var obs []Obligation
	e := c.effects()
	tfn := c.lookupFunc(pkgASM, "translate")
	tfd := c.funcDecl(tfn)
	if tfd == nil {
		return []Obligation{{Key: "asm.translate", Verdict: UNDECIDED, Detail: "not found"}}
	}
	info := c.pkg(pkgASM).TypesInfo
	// LK-2 lookup sites: function -> maps looked up with decoded identifiers
	lookups := map[*ssa.Function]map[string]bool{}
	for _, o := range c.runRule("LK-2") {
		_ = o
	}
	c.eachFunc(pkgASM, func(p *packages.Package, fd *ast.FuncDecl, fn *types.Func) {
		defs := collectDefs(info, fd.Body)
		ast.Inspect(fd.Body, func(nd ast.Node) bool {
			as, ok := nd.(*ast.AssignStmt)
			if !ok || len(as.Lhs) != 2 || len(as.Rhs) != 1 {
				return true
			}
			ix, ok := unparen(as.Rhs[0]).(*ast.IndexExpr)
			if !ok {
				return true
			}
			m := mapFieldName(info, ix.X)
			if !strings.HasPrefix(m, "newIndex.") || !c.keyIsDecoded(info, defs, ix.Index) {
				return true
			}
			if sf := c.ssaFunc(fn); sf != nil {
				if lookups[sf] == nil {
					lookups[sf] = map[string]bool{}
				}
				lookups[sf]["asm."+m] = true
			}
			return true
		})
	})
	// steps: top-level calls of translate, in order
	type step struct {
		name         string
		fn           *types.Func
		pos          token.Pos
		ord          int
		fills, looks map[string]bool
	}
	var steps []*step
	sfn := c.ssaFunc(tfn)
	cg := c.CallGraph()
	phaseRefs, drainAt, _, _ := c.translatePhases()
	for _, ref := range phaseRefs {
		f := ref.fn
		sf := c.ssaFunc(f)
		if sf == nil {
			continue
		}
		s := &step{name: f.Name(), fn: f, pos: ref.pos, ord: ref.ord, fills: map[string]bool{}, looks: map[string]bool{}}
		order, _ := e.reach([]*ssa.Function{sf})
		for _, g := range order {
			for m := range lookups[g] {
				s.looks[m] = true
			}
			// a fill: MapUpdate on newIndex.* inside a range over the matching oldIndex map (all definitions)
			for _, ef := range e.of(g) {
				if ef.Kind == "map" && strings.HasPrefix(ef.Target, "asm.newIndex.") {
					if c.insideRangeOverIndex(g, ef) {
						s.fills[ef.Target] = true
					}
				}
			}
		}
		steps = append(steps, s)
	}
	_ = sfn
	_ = cg
	// no step after the work-list drain may queue new placeholders
	drainPos := drainAt
	if drainPos.IsValid() {
		o := Obligation{Key: "no placeholder is queued after the work-list drain", Pos: c.pos(drainPos), Verdict: OK, Detail: "every step that can append to generator.todo precedes the drain"}
		for _, ref := range phaseRefs {
			if do, _ := c.memo["drainOrd"].(int); ref.ord <= do {
				continue
			}
			func() bool {
				f := ref.fn
				call := ref
				_ = call
				sf := c.ssaFunc(f)
				if sf == nil {
					return true
				}
				effs, _ := e.closure([]*ssa.Function{sf})
				for _, r := range effs {
					if r.Kind == "field" && r.Target == "asm.generator.todo" && o.Verdict == OK {
						o.Verdict = VIOL
						o.Pos = c.pos(call.pos)
						o.Detail = fmt.Sprintf("%s runs after the loop that replaces blockaddress placeholders but can still queue one (%s via %s): that placeholder is never replaced and survives in the returned module, and an undefined label in it is never diagnosed", f.Name(), c.pos(r.Pos), r.Path)
					}
				}
				return true
			}()
		}
		obs = append(obs, o)
	}
	maps := map[string]bool{}
	for _, s := range steps {
		for m := range s.fills {
			maps[m] = true
		}
		for m := range s.looks {
			maps[m] = true
		}
	}
	for _, m := range sortedKeys(maps) {
		var lastFill, firstLook *step
		for _, s := range steps {
			if s.fills[m] {
				lastFill = s
			}
			if s.looks[m] && firstLook == nil {
				firstLook = s
			}
		}
		o := Obligation{Key: "index " + m + " is complete before it is consulted", Verdict: OK}
		switch {
		case firstLook == nil:
			o.Detail = "never looked up with a decoded identifier"
		case lastFill == nil:
			o.Verdict, o.Pos = VIOL, c.pos(firstLook.pos)
			o.Detail = fmt.Sprintf("%s looks up %s but no step of translate fills it for all definitions", firstLook.name, m)
		case firstLook.ord <= lastFill.ord && firstLook != lastFill:
			o.Verdict, o.Pos = VIOL, c.pos(firstLook.pos)
			o.Detail = fmt.Sprintf("%s resolves uses in %s before %s has created all scaffolds: forward references fail or bind to nothing", firstLook.name, m, lastFill.name)
		case firstLook == lastFill:
			// the same step both fills and consults: its own sub-steps are ordered the same way —
			// inside it (recursively) every fill loop over all definitions ends before the first lookup
			o.Pos = c.pos(lastFill.pos)
			if ok, why, pos := c.subStepsOrdered(lastFill.fn, m, lookups, 0); ok {
				o.Detail = fmt.Sprintf("filled and consulted within %s, whose sub-steps fill before they consult (%s)", lastFill.name, why)
			} else {
				o.Verdict, o.Detail = VIOL, fmt.Sprintf("within %s, %s: forward references fail or bind to a substitute that is not the definition", lastFill.name, why)
				if pos.IsValid() {
					o.Pos = c.pos(pos)
				}
			}
		default:
			o.Pos = c.pos(lastFill.pos)
			o.Detail = fmt.Sprintf("filled by %s, first consulted by %s", lastFill.name, firstLook.name)
		}
		obs = append(obs, o)
	}
	return obs
}

// subStepsOrdered: inside fn, every event that fills index m for all definitions (a range over
// the matching old index that stores into m, directly or in a callee) ends before the first
// event that looks m up with a decoded identifier (directly or in a callee); a callee that does
// both is examined the same way.
func (c *Ctx) subStepsOrdered(fn *types.Func, m string, lookups map[*ssa.Function]map[string]bool, depth int) (bool, string, token.Pos) {
	fd := c.funcDecl(fn)
	if fd == nil || fd.Body == nil || depth > 3 {
		return false, "sub-steps of " + fn.Name() + " not available", token.NoPos
	}
	info := c.declPkg[fd].TypesInfo
	e := c.effects()
	closureOf := func(g *types.Func) (fills, looks bool) {
		sf := c.ssaFunc(g)
		if sf == nil {
			return
		}
		order, _ := e.reach([]*ssa.Function{sf})
		for _, h := range order {
			if lookups[h][m] {
				looks = true
			}
			for _, ef := range e.of(h) {
				if ef.Kind == "map" && ef.Target == m && c.insideRangeOverIndex(h, ef) {
					fills = true
				}
			}
		}
		return
	}
	type event struct {
		pos, end     token.Pos
		fills, looks bool
		what         string
		callee       *types.Func
	}
	var evs []event
	short := strings.TrimPrefix(m, "asm.")
	defs := collectDefs(info, fd.Body)
	ast.Inspect(fd.Body, func(n ast.Node) bool {
		switch n := n.(type) {
		case *ast.FuncLit:
			return false
		case *ast.RangeStmt:
			if strings.HasPrefix(mapFieldName(info, n.X), "oldIndex.") {
				stores := false
				ast.Inspect(n.Body, func(q ast.Node) bool {
					if as, ok := q.(*ast.AssignStmt); ok {
						for _, l := range as.Lhs {
							if ix, ok := unparen(l).(*ast.IndexExpr); ok && mapFieldName(info, ix.X) == short {
								stores = true
							}
						}
					}
					return true
				})
				if stores {
					evs = append(evs, event{pos: n.Pos(), end: n.End(), fills: true, what: "the loop that fills " + short})
				}
			}
		case *ast.AssignStmt:
			if len(n.Lhs) == 2 && len(n.Rhs) == 1 {
				if ix, ok := unparen(n.Rhs[0]).(*ast.IndexExpr); ok && mapFieldName(info, ix.X) == short && c.keyIsDecoded(info, defs, ix.Index) {
					evs = append(evs, event{pos: n.Pos(), end: n.End(), looks: true, what: "a lookup of " + short})
				}
			}
		case *ast.CallExpr:
			if g := calleeOf(info, n); g != nil && g != fn && g.Pkg() != nil && g.Pkg().Path() == pkgASM {
				if f, l := closureOf(g); f || l {
					evs = append(evs, event{pos: n.Pos(), end: n.End(), fills: f, looks: l, what: g.Name(), callee: g})
				}
			}
		}
		return true
	})
	var firstLook *event
	for i := range evs {
		if evs[i].looks && (firstLook == nil || evs[i].pos < firstLook.pos) {
			firstLook = &evs[i]
		}
	}
	if firstLook == nil {
		return true, "no lookup", token.NoPos
	}
	for i := range evs {
		ev := &evs[i]
		if !ev.fills {
			continue
		}
		if ev == firstLook {
			continue
		}
		if ev.end > firstLook.pos {
			return false, fmt.Sprintf("%s (at %s) consults %s before %s (at %s) has created all definitions", firstLook.what, c.pos(firstLook.pos), short, ev.what, c.pos(ev.pos)), firstLook.pos
		}
	}
	// events that both fill and consult are examined inside
	for i := range evs {
		if evs[i].fills && evs[i].looks && evs[i].callee != nil {
			if ok, why, pos := c.subStepsOrdered(evs[i].callee, m, lookups, depth+1); !ok {
				return false, why, pos
			}
		}
	}
	return true, fmt.Sprintf("%d ordered event(s) in %s", len(evs), fn.Name()), token.NoPos
}

// insideRangeOverIndex: the map update happens inside a range over a map field of oldIndex.
func (c *Ctx) insideRangeOverIndex(g *ssa.Function, ef Effect) bool {
	obj, _ := g.Object().(*types.Func)
	fd := c.funcDecl(obj)
	if fd == nil {
		return false
	}
	info := c.declPkg[fd].TypesInfo
	found := false
	ast.Inspect(fd.Body, func(nd ast.Node) bool {
		rs, ok := nd.(*ast.RangeStmt)
		if !ok {
			return true
		}
		if strings.HasPrefix(mapFieldName(info, rs.X), "oldIndex.") && rs.Body.Lbrace <= ef.Pos && ef.Pos <= rs.Body.Rbrace {
			found = true
		}
		return true
	})
	return found
}

// ---------------------------------------------------------------------------

func rulePARENT(c *Ctx) []Obligation {
	var obs []Obligation
	pa := c.pkg(pkgASM)
	info := pa.TypesInfo
	c.eachFunc(pkgASM, func(p *packages.Package, fd *ast.FuncDecl, fn *types.Func) {
		ord := 0
		ast.Inspect(fd.Body, func(nd ast.Node) bool {
			cl, ok := nd.(*ast.CompositeLit)
			if !ok {
				return true
			}
			n := namedOf(info.TypeOf(cl))
			if n == nil || n.Obj().Pkg() == nil || n.Obj().Pkg().Path() != pkgIR {
				return true
			}
			st, ok := n.Underlying().(*types.Struct)
			if !ok {
				return true
			}
			hasParent := false
			for i := 0; i < st.NumFields(); i++ {
				if st.Field(i).Name() == "Parent" {
					hasParent = true
				}
			}
			if !hasParent {
				return true
			}
			ord++
			o := Obligation{Key: fmt.Sprintf("%s allocates %s #%d", funcKey(fn), typeKey(n), ord), Pos: c.pos(cl.Pos()), Verdict: OK}
			set := false
			for _, el := range cl.Elts {
				if kv, ok := el.(*ast.KeyValueExpr); ok && exprString(kv.Key) == "Parent" {
					set = true
					o.Detail = "Parent: " + exprString(kv.Value)
				}
			}
			if !set {
				ast.Inspect(fd.Body, func(m ast.Node) bool {
					if as, ok := m.(*ast.AssignStmt); ok {
						for i, l := range as.Lhs {
							if nn, f := c.irFieldOf(info, l); nn == n && f.Name() == "Parent" {
								set = true
								if i < len(as.Rhs) {
									o.Detail = exprString(l) + " = " + exprString(as.Rhs[i])
								}
							}
						}
					}
					return true
				})
			}
			if !set {
				// the blockaddress placeholder never becomes part of the module (TODO)
				isPlaceholder := false
				ast.Inspect(fd.Body, func(m ast.Node) bool {
					if as, ok := m.(*ast.AssignStmt); ok && len(as.Lhs) == 1 && mapFieldName(info, as.Lhs[0]) == "generator.todo" {
						isPlaceholder = true
					}
					return true
				})
				if isPlaceholder && typeKey(n) == "ir.Block" {
					o.Verdict, o.Detail = EXEMPT, "blockaddress placeholder, replaced before the module is returned (TODO)"
				} else {
					o.Verdict = VIOL
					o.Detail = fmt.Sprintf("%s is allocated without its Parent link: containment and parent links disagree in the parsed module", typeKey(n))
				}
			}
			obs = append(obs, o)
			return true
		})
	})
	return obs
}

// ---------------------------------------------------------------------------
// index accesses per function (AST): non-materialising stores and lookups of the generator's index maps

type indexAccess struct {
	stores  map[string][]token.Pos // map field -> positions of stores that are not `!ok` materialisations
	mater   map[string][]token.Pos // materialising stores (inside the miss branch of a lookup of the same map and key)
	lookups map[string][]token.Pos
	alias   map[string][]token.Pos // subset of stores: the stored value is an entry of the same map (no new object)
	// lookups whose key comes from a resolver listed in det1ResolvedKeyExempt (kept apart from lookups)
	resolved map[string][]token.Pos
}

func (c *Ctx) indexAccesses() map[*types.Func]*indexAccess {
	if v, ok := c.memo["indexAccesses"]; ok {
		return v.(map[*types.Func]*indexAccess)
	}
	out := map[*types.Func]*indexAccess{}
	c.eachFunc(pkgASM, func(p *packages.Package, fd *ast.FuncDecl, fn *types.Func) {
		info := p.TypesInfo
		ia := &indexAccess{stores: map[string][]token.Pos{}, mater: map[string][]token.Pos{}, lookups: map[string][]token.Pos{}, alias: map[string][]token.Pos{}, resolved: map[string][]token.Pos{}}
		pm := buildParents(fd.Body)
		isIndexMap := func(x ast.Expr) (string, bool) {
			if _, ok := info.TypeOf(x).Underlying().(*types.Map); !ok {
				return "", false
			}
			m := mapFieldName(info, x)
			if strings.HasPrefix(m, "newIndex.") || strings.HasPrefix(m, "oldIndex.") || m == "funcGen.locals" {
				return m, true
			}
			return "", false
		}
		stored := map[*ast.IndexExpr]bool{}
		ast.Inspect(fd.Body, func(nd ast.Node) bool {
			as, ok := nd.(*ast.AssignStmt)
			if !ok {
				return true
			}
			for _, l := range as.Lhs {
				ix, ok := unparen(l).(*ast.IndexExpr)
				if !ok {
					continue
				}
				m, ok := isIndexMap(ix.X)
				if !ok {
					continue
				}
				stored[ix] = true
				// materialisation: inside `if !ok { ... }` where ok comes from a lookup of the same map with the same key
				mat := false
				for x := ast.Node(as); x != nil; x = pm[x] {
					is, ok := pm[x].(*ast.IfStmt)
					if !ok || is.Body != x {
						continue
					}
					cond := strings.ReplaceAll(exprString(is.Cond), " ", "")
					if !strings.HasPrefix(cond, "!") {
						continue
					}
					okName := cond[1:]
					// find the defining lookup of okName before the if
					ast.Inspect(fd.Body, func(q ast.Node) bool {
						a2, ok := q.(*ast.AssignStmt)
						if !ok || len(a2.Lhs) != 2 || len(a2.Rhs) != 1 || exprString(a2.Lhs[1]) != okName || a2.Pos() > is.Pos() {
							return true
						}
						if ix2, ok := unparen(a2.Rhs[0]).(*ast.IndexExpr); ok && exprString(ix2.X) == exprString(ix.X) && exprString(ix2.Index) == exprString(ix.Index) {
							mat = true
						}
						return true
					})
				}
				if !mat && reachedOnlyOnMiss(pm, as, ix) {
					mat = true
				}
				// an alias store copies an entry that already exists in the same map
				// (m[a] = m[b], or t, ok := m[b]; …; m[a] = t): it creates no object
				if len(as.Rhs) == 1 && !mat {
					rhs := unparen(as.Rhs[0])
					if id, ok := rhs.(*ast.Ident); ok {
						for _, d := range collectDefs(info, fd.Body)[info.ObjectOf(id)] {
							if ix2, ok := unparen(d).(*ast.IndexExpr); ok && exprString(ix2.X) == exprString(ix.X) {
								rhs = ix2
							}
						}
					}
					if ix2, ok := rhs.(*ast.IndexExpr); ok && exprString(ix2.X) == exprString(ix.X) {
						ia.alias[m] = append(ia.alias[m], as.Pos())
					}
				}
				if mat {
					ia.mater[m] = append(ia.mater[m], as.Pos())
				} else {
					ia.stores[m] = append(ia.stores[m], as.Pos())
				}
			}
			return true
		})
		ast.Inspect(fd.Body, func(nd ast.Node) bool {
			ix, ok := nd.(*ast.IndexExpr)
			if !ok || stored[ix] {
				return true
			}
			if m, ok := isIndexMap(ix.X); ok {
				// a key produced by a resolver with a recorded guarantee (det1ResolvedKeyExempt)
				if id, isID := unparen(ix.Index).(*ast.Ident); isID {
					resolved := false
					for _, d := range collectDefs(info, fd.Body)[info.ObjectOf(id)] {
						if call, isCall := unparen(d).(*ast.CallExpr); isCall {
							if callee := calleeOf(info, call); callee != nil {
								if _, ex := det1ResolvedKeyExempt[funcKey(callee)]; ex {
									resolved = true
								}
							}
						}
					}
					if resolved {
						ia.resolved[m] = append(ia.resolved[m], ix.Pos())
						return true
					}
				}
				ia.lookups[m] = append(ia.lookups[m], ix.Pos())
			}
			return true
		})
		out[fn] = ia
	})
	c.memo["indexAccesses"] = out
	return out
}

// reachedOnlyOnMiss: the store M[K] = … is preceded, in its own or an enclosing
// statement list, by a guard that leaves when a lookup of the same map with the
// same key hits:
//
//	if v, ok := M[K]; ok { return v }        or        v, ok := M[K]; if ok { return v }
//
// so the store is the materialisation of a missing entry (get-or-create written
// with a guard clause instead of an `if !ok { … }` block).
func reachedOnlyOnMiss(pm parentMap, store ast.Stmt, ix *ast.IndexExpr) bool {
	sameLookup := func(e ast.Expr) bool {
		ix2, ok := unparen(e).(*ast.IndexExpr)
		return ok && exprString(ix2.X) == exprString(ix.X) && exprString(ix2.Index) == exprString(ix.Index)
	}
	terminates := func(b *ast.BlockStmt) bool {
		if len(b.List) == 0 {
			return false
		}
		switch last := b.List[len(b.List)-1].(type) {
		case *ast.ReturnStmt:
			return true
		case *ast.BranchStmt:
			return last.Tok == token.CONTINUE || last.Tok == token.BREAK
		case *ast.ExprStmt:
			return endsInPanic([]ast.Stmt{last})
		}
		return false
	}
	var cur ast.Node = store
	for cur != nil {
		parent := pm[cur]
		var list []ast.Stmt
		switch p := parent.(type) {
		case *ast.BlockStmt:
			list = p.List
		case *ast.CaseClause:
			list = p.Body
		}
		for i, st := range list {
			if ast.Node(st) == cur {
				break
			}
			is, ok := st.(*ast.IfStmt)
			if !ok || is.Else != nil || !terminates(is.Body) {
				continue
			}
			okName := strings.TrimSpace(exprString(is.Cond))
			if as, ok := is.Init.(*ast.AssignStmt); ok && len(as.Lhs) == 2 && len(as.Rhs) == 1 && exprString(as.Lhs[1]) == okName && sameLookup(as.Rhs[0]) {
				return true
			}
			if is.Init == nil && i > 0 {
				if as, ok := list[i-1].(*ast.AssignStmt); ok && len(as.Lhs) == 2 && len(as.Rhs) == 1 && exprString(as.Lhs[1]) == okName && sameLookup(as.Rhs[0]) {
					return true
				}
			}
		}
		if _, isFn := parent.(*ast.FuncLit); isFn {
			return false
		}
		cur = parent
	}
	return false
}

func init() {
	register(&Rule{
		Name:  "IDX-ONCE",
		Doc:   "every index of IR definitions (newIndex.*) is filled at exactly one store site; any other store must be the materialisation of a missing entry (inside the miss branch of a lookup of the same key). A second plain store replaces an entry after uses may already be bound to the first object",
		Floor: 6,
		Run:   ruleIDXONCE,
	})
}

func ruleIDXONCE(c *Ctx) []Obligation {
	var obs []Obligation
	type site struct {
		fn  *types.Func
		pos token.Pos
	}
	sites := map[string][]site{}
	maters := map[string]int{}
	for fn, ia := range c.indexAccesses() {
		for m, ps := range ia.stores {
			if !strings.HasPrefix(m, "newIndex.") {
				continue
			}
			for _, p := range ps {
				isAlias := false
				for _, ap := range ia.alias[m] {
					if ap == p {
						isAlias = true
					}
				}
				if !isAlias {
					sites[m] = append(sites[m], site{fn, p})
				}
			}
		}
		for m, ps := range ia.mater {
			if strings.HasPrefix(m, "newIndex.") {
				maters[m] += len(ps)
			}
		}
	}
	// all map-typed fields of newIndex
	if tn := c.lookupType(pkgASM, "newIndex"); tn != nil {
		st := tn.Type().Underlying().(*types.Struct)
		for i := 0; i < st.NumFields(); i++ {
			m := "newIndex." + st.Field(i).Name()
			ss := sites[m]
			sort.Slice(ss, func(i, j int) bool { return ss[i].pos < ss[j].pos })
			o := Obligation{Key: "asm." + m + " has one fill site", Pos: c.pos(st.Field(i).Pos()), Verdict: OK}
			var names []string
			for _, s := range ss {
				names = append(names, fmt.Sprintf("%s (%s)", funcKey(s.fn), c.pos(s.pos)))
			}
			switch {
			case len(ss) == 0:
				o.Verdict, o.Detail = VIOL, "the index is never filled"
			case len(ss) > 1:
				o.Verdict = VIOL
				o.Pos = c.pos(ss[len(ss)-1].pos)
				o.Detail = fmt.Sprintf("%d plain store sites: %s — an entry written by one site can be replaced by another after uses were bound to the first object, so a use is no longer the object the module lists as the definition", len(ss), strings.Join(names, "; "))
			default:
				o.Detail = fmt.Sprintf("filled by %s; %d materialising store(s)", names[0], maters[m])
			}
			obs = append(obs, o)
		}
	}
	return obs
}

// phaseRef is a reference, inside asm.translate, to a function of package asm: a call, or a
// method value / function value placed in a table of phases that is run in order.
type phaseRef struct {
	fn  *types.Func
	pos token.Pos // position in translate (of the driver call, for steps of a nested driver)
	ord int       // execution order: 2·k for the k-th step; the drain loop gets an odd number when it sits between steps
}

// translatePhases lists the functions of package asm that translate refers to, in source
// order (which is execution order for straight-line code and for a table of phases iterated
// in order). drain is the position at which generator.todo is drained: a range over it in
// translate itself, or the reference to the function whose body contains that range.
func (c *Ctx) translatePhases() (refs []phaseRef, drain token.Pos, drainFn *ast.FuncDecl, drainLoop *ast.RangeStmt) {
	tfn := c.lookupFunc(pkgASM, "translate")
	tfd := c.funcDecl(tfn)
	if tfd == nil {
		return nil, token.NoPos, nil, nil
	}
	info := c.pkg(pkgASM).TypesInfo
	// references to functions of the package in a body, in source order
	refsIn := func(fd *ast.FuncDecl) []phaseRef {
		var out []phaseRef
		pm := buildParents(fd.Body)
		ast.Inspect(fd.Body, func(n ast.Node) bool {
			switch n := n.(type) {
			case *ast.CallExpr:
				if f := calleeOf(info, n); f != nil && f.Pkg() != nil && f.Pkg().Path() == pkgASM {
					out = append(out, phaseRef{fn: f, pos: n.Pos()})
				}
			case *ast.SelectorExpr:
				if sel, ok := info.Selections[n]; ok && sel.Kind() == types.MethodVal {
					if call, isCall := pm[n].(*ast.CallExpr); isCall && call.Fun == ast.Expr(n) {
						return true // counted as a call
					}
					if f, ok := sel.Obj().(*types.Func); ok && f.Pkg() != nil && f.Pkg().Path() == pkgASM {
						out = append(out, phaseRef{fn: f, pos: n.Pos()})
					}
				}
			}
			return true
		})
		sort.Slice(out, func(i, j int) bool { return out[i].pos < out[j].pos })
		return out
	}
	// a driver: a function that runs at least two argument-less steps on its receiver and has no
	// loop over an index of definitions of its own (translate split into resolveTypes(),
	// resolveTopLevelEntities() …): its steps are listed in place of the driver
	isDriver := func(fd *ast.FuncDecl) bool {
		if fd == nil || fd.Body == nil {
			return false
		}
		steps := 0
		loopsOverIndex := false
		ast.Inspect(fd.Body, func(n ast.Node) bool {
			switch x := n.(type) {
			case *ast.RangeStmt:
				if m := mapFieldName(info, x.X); strings.HasPrefix(m, "oldIndex.") || strings.HasPrefix(m, "newIndex.") {
					loopsOverIndex = true
				}
			case *ast.CallExpr:
				if f := calleeOf(info, x); f != nil && f.Pkg() != nil && f.Pkg().Path() == pkgASM && len(x.Args) == 0 {
					if sig := f.Type().(*types.Signature); sig.Recv() != nil {
						steps++
					}
				}
			case *ast.SelectorExpr:
				// a table of steps: method values
				if sel, ok := info.Selections[x]; ok && sel.Kind() == types.MethodVal {
					if f, ok := sel.Obj().(*types.Func); ok && f.Pkg() != nil && f.Pkg().Path() == pkgASM {
						if sig := f.Type().(*types.Signature); sig.Params().Len() == 0 {
							steps++
						}
					}
				}
			}
			return true
		})
		return steps >= 4 && !loopsOverIndex // each call is counted twice (call + selector)
	}
	hasDrain := func(fd *ast.FuncDecl) *ast.RangeStmt {
		for _, st := range fd.Body.List {
			if rs, ok := st.(*ast.RangeStmt); ok && mapFieldName(info, rs.X) == "generator.todo" {
				return rs
			}
		}
		return nil
	}
	drainOrd := -1
	var walk func(fd *ast.FuncDecl, depth int, callPos token.Pos)
	seen := map[*ast.FuncDecl]bool{}
	walk = func(fd *ast.FuncDecl, depth int, callPos token.Pos) {
		if seen[fd] {
			return
		}
		seen[fd] = true
		rs := hasDrain(fd)
		for _, r := range refsIn(fd) {
			if rs != nil && drainLoop == nil && r.pos > rs.Pos() {
				// the drain loop sits between two steps of this driver
				drainLoop, drainFn, drain = rs, fd, rs.Pos()
				if depth > 0 {
					drain = callPos
				}
				drainOrd = 2*len(refs) - 1
			}
			rfd := c.funcDecl(r.fn)
			if depth < 3 && rfd != fd && isDriver(rfd) {
				walk(rfd, depth+1, func() token.Pos {
					if depth == 0 {
						return r.pos
					}
					return callPos
				}())
				continue
			}
			p := r.pos
			if depth > 0 {
				p = callPos
			}
			refs = append(refs, phaseRef{fn: r.fn, pos: p, ord: 2 * len(refs)})
			// a leaf step that is the drain (fixBlockAddressConsts)
			if drainLoop == nil && rfd != nil && rfd.Body != nil {
				if lrs := hasDrain(rfd); lrs != nil {
					drainLoop, drainFn, drain = lrs, rfd, p
					drainOrd = 2 * (len(refs) - 1)
				}
			}
		}
		if rs != nil && drainLoop == nil {
			drainLoop, drainFn, drain = rs, fd, rs.Pos()
			if depth > 0 {
				drain = callPos
			}
			drainOrd = 2*len(refs) - 1
		}
	}
	walk(tfd, 0, token.NoPos)
	c.memo["drainOrd"] = drainOrd
	return refs, drain, drainFn, drainLoop
}

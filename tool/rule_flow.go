package main

import (
	"fmt"
	"go/ast"
	"go/token"
	"go/types"
	"sort"
	"strings"

	"golang.org/x/tools/go/packages"
)

// Engine A (part 3) — translators: FLOW (same-name flow) and FLD-W (field write coverage).

func init() {
	register(&Rule{
		Name:  "FLOW",
		Doc:   "in every translator of package asm, a value stored into field F of an IR struct derives from the AST accessor of the same name (or the frozen alias of F, or the enclosing `case *ast.FField`): syntax lands in the like-named IR field, not in a neighbour",
		Floor: 500,
		Run:   ruleFLOW,
	})
	register(&Rule{
		Name:  "FLD-W",
		Doc:   "every exported field of every IR struct type that package asm allocates is assigned somewhere in asm (literal key, assignment or setter); a field the translator never fills while the printer prints it is syntax the parser cannot deliver",
		Floor: 600,
		Run:   ruleFLDW,
	})
}

// irFieldOf resolves `x.F` to the IR struct type and field when x is a value
// of an llir/llvm struct type.
func (c *Ctx) irFieldOf(info *types.Info, e ast.Expr) (*types.Named, *types.Var) {
	e = unparen(e)
	if ix, ok := e.(*ast.IndexExpr); ok {
		e = unparen(ix.X)
	}
	se, ok := e.(*ast.SelectorExpr)
	if !ok {
		return nil, nil
	}
	sel, ok := info.Selections[se]
	if !ok || sel.Kind() != types.FieldVal {
		return nil, nil
	}
	n := namedOf(sel.Recv())
	if n == nil || n.Obj().Pkg() == nil || !isIRPkg(n.Obj().Pkg().Path()) {
		return nil, nil
	}
	st, ok := n.Underlying().(*types.Struct)
	if !ok {
		return nil, nil
	}
	f := st.Field(sel.Index()[0]) // the field of n through which the selection goes
	return n, f
}

func isIRPkg(path string) bool {
	return path == pkgIR || path == pkgCONS || path == pkgMD || path == pkgTYP
}

type flowCtx struct {
	c     *Ctx
	info  *types.Info
	defs  map[types.Object][]ast.Expr
	fn    *types.Func // the function being analysed (nil: parameters are not followed to call sites)
	depth int
}

// accessors collects the AST accessor names reaching e.
func (fc *flowCtx) accessors(e ast.Expr, out map[string]bool, seen map[types.Object]bool) {
	ast.Inspect(e, func(n ast.Node) bool {
		switch n := n.(type) {
		case *ast.FuncLit:
			return false
		case *ast.CallExpr:
			if se, ok := unparen(n.Fun).(*ast.SelectorExpr); ok {
				if sel, ok := fc.info.Selections[se]; ok && sel.Kind() == types.MethodVal {
					if astNode(sel.Recv()) != nil && !accInfra[se.Sel.Name] {
						out[se.Sel.Name] = true
					}
				}
			}
		case *ast.Ident:
			obj := fc.info.Uses[n]
			if obj == nil || seen[obj] {
				return true
			}
			if ds, ok := fc.defs[obj]; ok {
				seen[obj] = true
				for _, d := range ds {
					fc.accessors(d, out, seen)
				}
			}
			// a parameter that carries part of the syntax (a helper split off a translator,
			// irFuncParams(new, old.Params().Params())): the accessors are those of the arguments
			// at the call sites
			if v, ok := obj.(*types.Var); ok && fc.fn != nil && fc.depth < 2 {
				sig := fc.fn.Type().(*types.Signature)
				for i := 0; i < sig.Params().Len(); i++ {
					if sig.Params().At(i) != v {
						continue
					}
					seen[obj] = true
					fc.c.eachFunc(pkgASM, func(p2 *packages.Package, fd2 *ast.FuncDecl, fn2 *types.Func) {
						var caller *flowCtx
						ast.Inspect(fd2.Body, func(m ast.Node) bool {
							call, ok := m.(*ast.CallExpr)
							if !ok || calleeOf(p2.TypesInfo, call) != fc.fn || i >= len(call.Args) {
								return true
							}
							if caller == nil {
								caller = &flowCtx{c: fc.c, info: p2.TypesInfo, defs: collectDefs(p2.TypesInfo, fd2.Body), fn: fn2, depth: fc.depth + 1}
							}
							caller.accessors(call.Args[i], out, map[types.Object]bool{})
							return true
						})
					})
				}
			}
		}
		return true
	})
}

// collectDefs records, flow-insensitively, the expressions each local variable is defined from.
func collectDefs(info *types.Info, body *ast.BlockStmt) map[types.Object][]ast.Expr {
	defs := map[types.Object][]ast.Expr{}
	add := func(lhs ast.Expr, rhs ast.Expr) {
		id, ok := unparen(lhs).(*ast.Ident)
		if !ok || id.Name == "_" {
			return
		}
		obj := info.ObjectOf(id)
		if obj == nil {
			return
		}
		defs[obj] = append(defs[obj], rhs)
	}
	ast.Inspect(body, func(n ast.Node) bool {
		switch n := n.(type) {
		case *ast.AssignStmt:
			if len(n.Rhs) == 1 && len(n.Lhs) > 1 {
				for _, l := range n.Lhs {
					add(l, n.Rhs[0])
				}
			} else {
				for i, l := range n.Lhs {
					if i < len(n.Rhs) {
						add(l, n.Rhs[i])
					}
				}
			}
		case *ast.RangeStmt:
			if n.Key != nil {
				add(n.Key, n.X)
			}
			if n.Value != nil {
				add(n.Value, n.X)
			}
		case *ast.TypeSwitchStmt:
			if as, ok := n.Assign.(*ast.AssignStmt); ok {
				x := as.Rhs[0].(*ast.TypeAssertExpr).X
				// each clause has its own implicit object
				for _, cc := range n.Body.List {
					if obj := info.Implicits[cc]; obj != nil {
						defs[obj] = append(defs[obj], x)
					}
				}
			}
		case *ast.ValueSpec:
			for i, name := range n.Names {
				if i < len(n.Values) {
					add(name, n.Values[i])
				} else if len(n.Values) == 1 {
					add(name, n.Values[0])
				}
			}
		}
		return true
	})
	return defs
}

// caseFieldName normalises the name of an AST alternative (`case *ast.K`) to
// the IR field it denotes: SectionField→Section, GCNode→GC, SanitizerKind→Sanitizer,
// FuncAttribute→FuncAttrs.
func caseFieldName(k string) string {
	switch k {
	case "FuncAttribute":
		return "FuncAttrs"
	case "GCNode":
		return "GC"
	case "SanitizerKind":
		return "Sanitizer"
	}
	return strings.TrimSuffix(k, "Field")
}

// flowAlias: IR field -> accepted AST accessor names, where the names differ.
// Keyed "pkg.Type.Field" or "*.Field". One reason per entry.
var flowAlias = map[string][]string{
	"*.ElemType":                     {"Elem", "ElemType"},   // grammar: Elem=Type / ElemType=Type
	"*.TargetDefault":                {"Default"},            // switch default target
	"*.InAlloca":                     {"InAllocatok", "Typ"}, // keyword token accessor; `inalloca(T)` parameter attribute carries a type
	"*.AlignStack":                   {"AlignStackTok", "AlignStack"},
	"*.Linkage":                      {"ExternLinkage", "Linkage"}, // the grammar splits external linkages into their own production
	"*.TLSModel":                     {"ThreadLocal"},
	"*.Aliasee":                      {"IndirectSymbol"},
	"*.Resolver":                     {"IndirectSymbol"},
	"*.Fields":                       {"MDFields", "Fields"},
	"*.Typ":                          {"Typ", "Type"},
	"*.DwoID":                        {"DwoId"},
	"*.ContentType":                  {"ContentType"},
	"*.GlobalIdent":                  {"Name"},
	"*.LocalIdent":                   {"Name"},
	"*.Sig":                          {"RetType", "Params"},
	"*.RetType":                      {"RetType"},
	"*.Params":                       {"Params"},
	"*.Variadic":                     {"Params", "Variadic"},
	"*.Value":                        {"Val"}, // grammar: Val=Value
	"*.Type":                         {"Typ"}, // grammar: Typ=... (`type` is a Go keyword in the generator)
	"*.Kind":                         {"FloatKind", "AllocKinds", "Kind"},
	"*.Node":                         {"MDNode"},
	"*.Nodes":                        {"MDNodes"},
	"*.Partition":                    {"Partitions", "Partition"}, // indirect symbols take a list of partitions, the last one wins
	"ir.Module.ModuleAsms":           {"Asm"},
	"ir.Module.SourceFilename":       {"Name"},          // `source_filename = Name=StringLit`
	"ir.Block.LocalIdent":            {"Block", "Name"}, // blockaddress placeholder is named after the Block=LocalIdent operand
	"ir.Alias.Typ":                   {"ContentType"},   // pointer to the content type
	"ir.IFunc.Typ":                   {"ContentType"},
	"ir.Global.Typ":                  {"ContentType"},
	"ir/types.PointerType.AddrSpace": {"AddrSpace", "IndirectSymbol"}, // alias/ifunc address space is inferred from the aliasee expression
	"ir.VectorScaleRange.Max":        {"Max", "Min"},                  // vscale_range(n): the single value denotes the maximum (LangRef)
}

func ruleFLOW(c *Ctx) []Obligation {
	var obs []Obligation
	c.eachFunc(pkgASM, func(p *packages.Package, fd *ast.FuncDecl, fn *types.Func) {
		sig := fn.Type().(*types.Signature)
		hasAST := false
		for i := 0; i < sig.Params().Len(); i++ {
			t := sig.Params().At(i).Type()
			if n := namedOf(t); n != nil && n.Obj().Pkg() != nil && n.Obj().Pkg().Path() == pkgAST {
				hasAST = true
			}
			if sl, ok := t.(*types.Slice); ok {
				if n := namedOf(sl.Elem()); n != nil && n.Obj().Pkg() != nil && n.Obj().Pkg().Path() == pkgAST {
					hasAST = true
				}
			}
		}
		if !hasAST {
			return
		}
		info := p.TypesInfo
		fc := &flowCtx{c: c, info: info, defs: collectDefs(info, fd.Body)}
		// enclosing `case *ast.XField` per position
		type caseRange struct {
			lo, hi token.Pos
			name   string
		}
		var cases []caseRange
		ast.Inspect(fd.Body, func(n ast.Node) bool {
			if cl, ok := n.(*ast.CaseClause); ok && len(cl.List) == 1 {
				if k := namedOf(info.TypeOf(cl.List[0])); k != nil && k.Obj().Pkg() != nil && k.Obj().Pkg().Path() == pkgAST {
					cases = append(cases, caseRange{cl.Pos(), cl.End(), caseFieldName(k.Obj().Name())})
				}
			}
			return true
		})
		caseName := func(pos token.Pos) string {
			best := ""
			var bestLen token.Pos = 1 << 40
			for _, cr := range cases {
				if cr.lo <= pos && pos < cr.hi && cr.hi-cr.lo < bestLen {
					best, bestLen = cr.name, cr.hi-cr.lo
				}
			}
			return best
		}
		ord := map[string]int{}
		check := func(n *types.Named, f *types.Var, rhs ast.Expr, pos token.Pos) {
			if !f.Exported() {
				return
			}
			A := map[string]bool{}
			fc.accessors(rhs, A, map[types.Object]bool{})
			if len(A) == 0 {
				return // unknown shape: not decided, never an alarm
			}
			tkey := typeKey(n)
			k := fmt.Sprintf("%s: %s.%s", funcKey(fn), tkey, f.Name())
			ord[k]++
			if ord[k] > 1 {
				k += fmt.Sprintf("#%d", ord[k])
			}
			o := Obligation{Key: k, Pos: c.pos(pos), Verdict: OK, Tags: append(asmTags(fn.Name(), tkey), irTags(n)...)}
			names := sortedKeys(A)
			okFlow := A[f.Name()]
			// a field-to-field copy between IR values (typ.Scalable = xType.Scalable) carries the like-named field by construction
			if se, ok := unparen(rhs).(*ast.SelectorExpr); ok && se.Sel.Name == f.Name() {
				if sel, ok := info.Selections[se]; ok && sel.Kind() == types.FieldVal {
					okFlow = true
				}
			}
			for _, a := range flowAlias[tkey+"."+f.Name()] {
				okFlow = okFlow || A[a]
			}
			for _, a := range flowAlias["*."+f.Name()] {
				okFlow = okFlow || A[a]
			}
			if cn := caseName(pos); cn != "" && strings.EqualFold(cn, f.Name()) {
				okFlow = true
			}
			if !okFlow {
				// second chance: part of the syntax may arrive through a parameter of this
				// function (a helper split off a translator); add the accessors of the
				// arguments at its call sites
				fc2 := &flowCtx{c: c, info: info, defs: fc.defs, fn: fn}
				B := map[string]bool{}
				fc2.accessors(rhs, B, map[types.Object]bool{})
				okFlow = B[f.Name()]
				for _, a := range flowAlias[tkey+"."+f.Name()] {
					okFlow = okFlow || B[a]
				}
				for _, a := range flowAlias["*."+f.Name()] {
					okFlow = okFlow || B[a]
				}
				if okFlow {
					names = sortedKeys(B)
				}
			}
			if okFlow {
				o.Detail = "from accessor(s) " + strings.Join(names, ", ")
			} else {
				o.Verdict = VIOL
				o.Detail = fmt.Sprintf("value stored into %s.%s derives from AST accessor(s) {%s}, none of which is %s (or its alias): the syntax is wired to the wrong field", tkey, f.Name(), strings.Join(names, ", "), f.Name())
			}
			obs = append(obs, o)
		}
		ast.Inspect(fd.Body, func(nd ast.Node) bool {
			switch nd := nd.(type) {
			case *ast.FuncLit:
				return false
			case *ast.AssignStmt:
				for i, l := range nd.Lhs {
					n, f := c.irFieldOf(info, l)
					if n == nil {
						continue
					}
					var rhs ast.Expr
					if len(nd.Rhs) == 1 {
						rhs = nd.Rhs[0]
					} else if i < len(nd.Rhs) {
						rhs = nd.Rhs[i]
					}
					if rhs != nil {
						check(n, f, rhs, l.Pos())
					}
				}
			case *ast.CompositeLit:
				n := namedOf(info.TypeOf(nd))
				if n == nil || n.Obj().Pkg() == nil || !isIRPkg(n.Obj().Pkg().Path()) {
					return true
				}
				st, ok := n.Underlying().(*types.Struct)
				if !ok {
					return true
				}
				for _, el := range nd.Elts {
					kv, ok := el.(*ast.KeyValueExpr)
					if !ok {
						continue
					}
					id, ok := kv.Key.(*ast.Ident)
					if !ok {
						continue
					}
					for i := 0; i < st.NumFields(); i++ {
						if st.Field(i).Name() == id.Name {
							check(n, st.Field(i), kv.Value, kv.Pos())
						}
					}
				}
			}
			return true
		})
	})
	return obs
}

// ---------------------------------------------------------------------------

// fldwExempt: frozen exemptions of FLD-W by "pkg.Type.Field" or "*.Field".
var fldwExempt = map[string]string{
	"*.Successors": "derived cache, filled lazily by Succs()",
	"*.Typ":        "result-type cache; where the parser does not set it, Type() computes it from the operands (checked by TYP rules)",
}

func ruleFLDW(c *Ctx) []Obligation {
	pa := c.pkg(pkgASM)
	info := pa.TypesInfo
	allocated := map[*types.Named]token.Pos{}
	assigned := map[string]bool{}
	mark := func(n *types.Named, f string) { assigned[typeKey(n)+"."+f] = true }
	ifaceCalls := map[string]bool{}
	for _, file := range pa.Syntax {
		ast.Inspect(file, func(nd ast.Node) bool {
			switch nd := nd.(type) {
			case *ast.CompositeLit:
				n := namedOf(info.TypeOf(nd))
				if n == nil || n.Obj().Pkg() == nil || !isIRPkg(n.Obj().Pkg().Path()) {
					return true
				}
				st, ok := n.Underlying().(*types.Struct)
				if !ok {
					return true
				}
				if _, seen := allocated[n]; !seen {
					allocated[n] = nd.Pos()
				}
				for i, el := range nd.Elts {
					if kv, ok := el.(*ast.KeyValueExpr); ok {
						if id, ok := kv.Key.(*ast.Ident); ok {
							mark(n, id.Name)
						}
					} else if i < st.NumFields() {
						mark(n, st.Field(i).Name())
					}
				}
			case *ast.AssignStmt:
				for _, l := range nd.Lhs {
					if n, f := c.irFieldOf(info, l); n != nil {
						mark(n, f.Name())
					}
				}
			case *ast.UnaryExpr:
				// &obj.F handed to a helper that fills it (irOperandPair(&inst.X, &inst.Y, …),
				// irMetadataInto(&inst.Metadata, …)): the field is written through the pointer
				if nd.Op == token.AND {
					if n, f := c.irFieldOf(info, nd.X); n != nil {
						mark(n, f.Name())
					}
				}
			case *ast.CallExpr:
				// setters: x.SetF(v) on an IR struct; constructors ir.NewX(...) fill what they take
				if se, ok := unparen(nd.Fun).(*ast.SelectorExpr); ok {
					if sel, ok := info.Selections[se]; ok && sel.Kind() == types.MethodVal {
						if n := namedOf(sel.Recv()); n != nil && n.Obj().Pkg() != nil && c.isLLVM(n.Obj().Pkg().Path()) {
							if m, ok := sel.Obj().(*types.Func); ok {
								if st := structOf(sel.Recv()); st != nil && len(sel.Index()) > 1 && strings.HasPrefix(m.Name(), "Set") {
									// setter promoted from an embedded field (tuple.SetID → MetadataID)
									mark(n, st.Field(sel.Index()[0]).Name())
								}
								for _, e := range c.subjectFields(m, -1) {
									if e.Write {
										// attribute the write to the static receiver type's field path
										if st := structOf(sel.Recv()); st != nil {
											idx := sel.Index()
											if len(idx) > 1 {
												mark(n, st.Field(idx[0]).Name())
											} else {
												mark(n, e.Field)
											}
										}
									}
								}
							}
						}
					}
				}
				if fn := calleeOf(info, nd); fn != nil && fn.Pkg() != nil && isIRPkg(fn.Pkg().Path()) && strings.HasPrefix(fn.Name(), "New") {
					if rs := fn.Type().(*types.Signature).Results(); rs.Len() >= 1 {
						if n := isIRStructPtr(c, rs.At(0).Type()); n != nil {
							if _, seen := allocated[n]; !seen {
								allocated[n] = nd.Pos()
							}
							for f := range c.ctorWrites(fn, n, map[*types.Func]bool{}) {
								mark(n, f)
							}
						}
					}
				}
				// setter through an interface (e.g. metadata.Definition.SetDistinct): remember the method name
				if se, ok := unparen(nd.Fun).(*ast.SelectorExpr); ok {
					if sel, ok := info.Selections[se]; ok && sel.Kind() == types.MethodVal {
						if _, isIface := sel.Recv().Underlying().(*types.Interface); isIface {
							ifaceCalls[se.Sel.Name] = true
						}
					}
				}
			}
			return true
		})
	}
	var ns []*types.Named
	for n := range allocated {
		ns = append(ns, n)
		for m := range ifaceCalls {
			if mf := methodOf(n, m); mf != nil {
				for _, e := range c.subjectFields(mf, -1) {
					if e.Write {
						if declaredMethodOf(n, m) != nil {
							mark(n, e.Field)
						}
					}
				}
			}
		}
	}
	sort.Slice(ns, func(i, j int) bool { return typeKey(ns[i]) < typeKey(ns[j]) })
	var obs []Obligation
	for _, n := range ns {
		st := n.Underlying().(*types.Struct)
		tkey := typeKey(n)
		for i := 0; i < st.NumFields(); i++ {
			f := st.Field(i)
			if !f.Exported() {
				continue
			}
			o := Obligation{Key: tkey + "." + f.Name(), Pos: c.pos(f.Pos()), Tags: irTags(n)}
			switch {
			case assigned[tkey+"."+f.Name()]:
				o.Verdict, o.Detail = OK, "assigned in package asm"
			case fldwExempt[tkey+"."+f.Name()] != "":
				o.Verdict, o.Detail = EXEMPT, fldwExempt[tkey+"."+f.Name()]
			case fldwExempt["*."+f.Name()] != "":
				o.Verdict, o.Detail = EXEMPT, fldwExempt["*."+f.Name()]
			default:
				o.Verdict = VIOL
				o.Detail = fmt.Sprintf("package asm allocates %s (%s) but never assigns its field %s: the parser cannot deliver what the printer prints from it", tkey, c.pos(allocated[n]), f.Name())
			}
			obs = append(obs, o)
		}
	}
	return obs
}

// ctorWrites returns the fields of *n that constructor fn (and the same-package
// constructors it delegates to) sets.
func (c *Ctx) ctorWrites(fn *types.Func, n *types.Named, visiting map[*types.Func]bool) map[string]bool {
	out := map[string]bool{}
	if visiting[fn] {
		return out
	}
	visiting[fn] = true
	fd := c.funcDecl(fn)
	if fd == nil || fd.Body == nil {
		return out
	}
	ci := c.declPkg[fd].TypesInfo
	ast.Inspect(fd.Body, func(m ast.Node) bool {
		switch m := m.(type) {
		case *ast.CompositeLit:
			if namedOf(ci.TypeOf(m)) == n {
				st := n.Underlying().(*types.Struct)
				for i, el := range m.Elts {
					if kv, ok := el.(*ast.KeyValueExpr); ok {
						if id, ok := kv.Key.(*ast.Ident); ok {
							out[id.Name] = true
						}
					} else if i < st.NumFields() {
						out[st.Field(i).Name()] = true
					}
				}
			}
		case *ast.AssignStmt:
			for _, l := range m.Lhs {
				if nn, f := c.irFieldOf(ci, l); nn == n {
					out[f.Name()] = true
				}
			}
		case *ast.CallExpr:
			if callee := calleeOf(ci, m); callee != nil && callee.Pkg() == fn.Pkg() && callee != fn {
				if rs := callee.Type().(*types.Signature).Results(); rs.Len() >= 1 && isIRStructPtr(c, rs.At(0).Type()) == n {
					for f := range c.ctorWrites(callee, n, visiting) {
						out[f] = true
					}
				}
				// x.SetF(...) / x.Type() on the fresh object
				if se, ok := unparen(m.Fun).(*ast.SelectorExpr); ok {
					if sel, ok := ci.Selections[se]; ok && sel.Kind() == types.MethodVal && namedOf(sel.Recv()) == n {
						for _, e := range c.subjectFields(callee, -1) {
							if e.Write {
								out[e.Field] = true
							}
						}
					}
				}
			}
		}
		return true
	})
	return out
}

package main

import (
	"fmt"
	"go/ast"
	"go/constant"
	"go/parser"
	"go/token"
	"go/types"
	"sort"
	"strings"

	"golang.org/x/tools/go/packages"
)

// Rules added after seeded batch 4: NO-GO, IDX-PHASE, NUM-PARSE, ENUM-OMIT, SIB-SET, FLD-LOOP, SUCC-FILL.

func init() {
	register(&Rule{
		Name:  "NO-GO",
		Doc:   "no non-test file of llir/llvm starts a goroutine: the translator's phases share the generator's indices, work list and counters without locks, and printing shares the module, so code run on another goroutine makes one parse (or one print) a data race whose outcome depends on the schedule",
		Floor: 8,
		Run:   ruleNOGO,
	})
}

func firstGoStmt(f *ast.File) token.Pos {
	pos := token.NoPos
	ast.Inspect(f, func(n ast.Node) bool {
		if g, ok := n.(*ast.GoStmt); ok && pos == token.NoPos {
			pos = g.Pos()
		}
		return true
	})
	return pos
}

func ruleNOGO(c *Ctx) []Obligation {
	const positive = "package p\nfunc f(xs []int) { done := make(chan bool); go func() { xs[0] = 1; done <- true }(); <-done }\n"
	if pf, err := parser.ParseFile(token.NewFileSet(), "positive.go", positive, 0); err != nil {
		return []Obligation{{Key: "matcher self-test", Verdict: UNDECIDED, Detail: "positive example does not parse: " + err.Error()}}
	} else if firstGoStmt(pf) == token.NoPos {
		return []Obligation{{Key: "matcher self-test", Verdict: UNDECIDED, Detail: "the matcher does not recognise the positive example"}}
	}
	var obs []Obligation
	for _, p := range c.llvmPkgs() {
		o := Obligation{Key: "package " + shortPkg(p.PkgPath) + " starts no goroutine", Verdict: OK, Detail: fmt.Sprintf("%d files", len(p.Syntax))}
		for _, f := range p.Syntax {
			if pos := firstGoStmt(f); pos != token.NoPos {
				o.Verdict, o.Pos = VIOL, c.pos(pos)
				o.Detail = "a goroutine is started inside the library: the translator's phases (and the printers) share indices, work lists and counters without synchronisation, so the result — or whether the call crashes with `concurrent map read and map write` — depends on the schedule"
				break
			}
		}
		obs = append(obs, o)
	}
	return obs
}

var _ = constant.MakeBool
var _ = sort.Strings
var _ = strings.TrimSpace
var _ = types.Typ
var _ *packages.Package

// ---------------------------------------------------------------------------
// ENUM-OMIT

func init() {
	register(&Rule{
		Name:  "ENUM-OMIT",
		Doc:   "a printer of package ir omits an enum-valued field only at its zero value — the value the translator leaves when the keyword is absent: the guard of every printed enum field, evaluated for every declared member of the enum, is true for every member other than the zero one",
		Floor: 8,
		Run:   ruleENUMOMIT,
	})
}

func ruleENUMOMIT(c *Ctx) []Obligation {
	var obs []Obligation
	enumByType := map[string]*enumTables{}
	for _, et := range c.enumTypes() {
		enumByType[typeKey(et.T)] = et
	}
	for _, path := range []string{pkgIR} {
		c.eachFunc(path, func(p *packages.Package, fd *ast.FuncDecl, fn *types.Func) {
			info := p.TypesInfo
			n := 0
			ast.Inspect(fd.Body, func(nd ast.Node) bool {
				is, ok := nd.(*ast.IfStmt)
				if !ok || is.Init != nil {
					return true
				}
				// the enum field the condition is about: every non-constant leaf of the condition
				// is one and the same selector of an enum type
				var field ast.Expr
				pure := true
				var leaves func(e ast.Expr)
				leaves = func(e ast.Expr) {
					e = unparen(e)
					if tv := info.Types[e]; tv.Value != nil {
						return
					}
					switch x := e.(type) {
					case *ast.BinaryExpr:
						leaves(x.X)
						leaves(x.Y)
					case *ast.UnaryExpr:
						leaves(x.X)
					case *ast.SelectorExpr, *ast.Ident:
						// a field, or (in a shared helper) the parameter it was passed as
						if _, isEnum := enumByType[typeKey(info.TypeOf(x))]; isEnum {
							if field == nil || exprString(field) == exprString(x) {
								field = x
								return
							}
						}
						pure = false
					default:
						pure = false
					}
				}
				leaves(is.Cond)
				if field == nil || !pure {
					return true
				}
				// the body prints that field
				prints := false
				ast.Inspect(is.Body, func(m ast.Node) bool {
					if se, ok := m.(ast.Expr); ok && exprString(se) == exprString(field) {
						prints = true
					}
					return true
				})
				if !prints {
					return true
				}
				et := enumByType[typeKey(info.TypeOf(field))]
				n++
				o := Obligation{Key: fmt.Sprintf("%s prints %s unless zero #%d", funcKey(fn), exprString(field), n), Pos: c.pos(is.Pos()), Verdict: OK, Tags: []string{"enum"}}
				var dropped []string
				seen := map[int64]bool{}
				undecided := false
				for _, d := range et.Declared {
					if seen[d.Val] {
						continue
					}
					seen[d.Val] = true
					ev := &byteEval{info: info, val: d.Val, c: c, isVar: func(e ast.Expr) bool {
						switch e.(type) {
						case *ast.SelectorExpr, *ast.Ident:
							return exprString(e) == exprString(field)
						}
						return false
					}}
					r, ok := ev.eval(is.Cond)
					if !ok || r.Kind() != constant.Bool {
						undecided = true
						break
					}
					if !constant.BoolVal(r) && d.Val != 0 {
						dropped = append(dropped, d.Name)
					}
				}
				switch {
				case undecided:
					o.Verdict, o.Detail = UNDECIDED, "the guard could not be evaluated over the members of "+et.Short
				case len(dropped) > 0:
					o.Verdict = VIOL
					o.Detail = fmt.Sprintf("the guard `%s` also suppresses %s: the keyword is not printed for that value, and the translator leaves the zero value when the keyword is absent, so the value does not survive printing and parsing", exprString(is.Cond), strings.Join(dropped, ", "))
				default:
					o.Detail = fmt.Sprintf("`%s` holds for all %d non-zero members of %s", exprString(is.Cond), len(seen)-1, et.Short)
				}
				obs = append(obs, o)
				return true
			})
		})
	}
	return obs
}

// ---------------------------------------------------------------------------
// SIB-SET

func init() {
	register(&Rule{
		Name:  "SIB-SET",
		Doc:   "in a dispatcher of package asm that returns a freshly built object per grammar alternative as one IR interface (newMetadataDef → metadata.Definition), the sibling alternatives apply the same setters of that interface to what they return: a setter every kind supports (SetID, SetDistinct) that one alternative applies and another does not is a dropped attribute",
		Floor: 1,
		Run:   ruleSIBSET,
	})
}

func ruleSIBSET(c *Ctx) []Obligation {
	var obs []Obligation
	c.eachFunc(pkgASM, func(p *packages.Package, fd *ast.FuncDecl, fn *types.Func) {
		info := p.TypesInfo
		sig := fn.Type().(*types.Signature)
		if sig.Results().Len() < 1 {
			return
		}
		rt := sig.Results().At(0).Type()
		in := namedOf(rt)
		if in == nil || !types.IsInterface(rt) || in.Obj().Pkg() == nil || !c.isLLVM(in.Obj().Pkg().Path()) {
			return
		}
		iface := in.Underlying().(*types.Interface)
		setters := map[string]bool{}
		for i := 0; i < iface.NumMethods(); i++ {
			if m := iface.Method(i); strings.HasPrefix(m.Name(), "Set") {
				setters[m.Name()] = true
			}
		}
		if len(setters) == 0 {
			return
		}
		ast.Inspect(fd.Body, func(nd ast.Node) bool {
			sw, ok := nd.(*ast.TypeSwitchStmt)
			if !ok {
				return true
			}
			type arm struct {
				label string
				pos   token.Pos
				calls map[string]bool
			}
			var arms []arm
			for _, cc := range sw.Body.List {
				cl := cc.(*ast.CaseClause)
				if cl.List == nil || len(cl.Body) == 0 {
					continue
				}
				r, ok := cl.Body[len(cl.Body)-1].(*ast.ReturnStmt)
				if !ok || len(r.Results) < 1 {
					continue
				}
				id, ok := unparen(r.Results[0]).(*ast.Ident)
				if !ok || id.Name == "nil" {
					continue
				}
				obj := info.ObjectOf(id)
				a := arm{pos: cl.Pos(), calls: map[string]bool{}}
				var ls []string
				for _, e := range cl.List {
					ls = append(ls, exprString(e))
				}
				a.label = strings.Join(ls, ", ")
				for _, st := range cl.Body {
					ast.Inspect(st, func(m ast.Node) bool {
						if call, ok := m.(*ast.CallExpr); ok {
							if se, ok := unparen(call.Fun).(*ast.SelectorExpr); ok && setters[se.Sel.Name] {
								if x, ok := unparen(se.X).(*ast.Ident); ok && info.ObjectOf(x) == obj {
									a.calls[se.Sel.Name] = true
								}
							}
						}
						return true
					})
				}
				arms = append(arms, a)
			}
			if len(arms) < 2 {
				return true
			}
			union := map[string]bool{}
			for _, a := range arms {
				for k := range a.calls {
					union[k] = true
				}
			}
			if len(union) == 0 {
				return true
			}
			for _, a := range arms {
				o := Obligation{Key: fmt.Sprintf("%s case %s applies the setters its siblings apply", funcKey(fn), a.label), Pos: c.pos(a.pos), Verdict: OK, Tags: asmTags(fn.Name(), typeKey(rt))}
				var missing []string
				for k := range union {
					if !a.calls[k] {
						missing = append(missing, k)
					}
				}
				sort.Strings(missing)
				if len(missing) > 0 {
					o.Verdict = VIOL
					o.Detail = fmt.Sprintf("the object returned for %s never receives %s, which a sibling alternative of the same dispatcher applies to its result (every %s supports it): for this alternative the attribute the input states is dropped", a.label, strings.Join(missing, ", "), typeKey(rt))
				} else {
					o.Detail = strings.Join(sortedKeys(union), ", ")
				}
				obs = append(obs, o)
			}
			return true
		})
	})
	return obs
}

// ---------------------------------------------------------------------------
// FLD-LOOP

func init() {
	register(&Rule{
		Name:  "FLD-LOOP",
		Doc:   "in a translator's loop over the fields of a node (a type switch inside a range), no alternative reads a field of the object under construction that another alternative of the same loop writes: the grammar fixes no order among `key: value` fields, so such a read sees the value only for one order of the input",
		Floor: 20,
		Run:   ruleFLDLOOP,
	})
}

func ruleFLDLOOP(c *Ctx) []Obligation {
	var obs []Obligation
	c.eachFunc(pkgASM, func(p *packages.Package, fd *ast.FuncDecl, fn *types.Func) {
		info := p.TypesInfo
		n := 0
		ast.Inspect(fd.Body, func(nd ast.Node) bool {
			rs, ok := nd.(*ast.RangeStmt)
			if !ok {
				return true
			}
			var sw *ast.TypeSwitchStmt
			for _, st := range rs.Body.List {
				if s, ok := st.(*ast.TypeSwitchStmt); ok {
					sw = s
				}
			}
			if sw == nil {
				return true
			}
			// per clause: IR fields written and read through one local object
			type use struct {
				field string
				pos   token.Pos
			}
			writes := map[string]map[*ast.CaseClause]bool{}
			var reads []struct {
				cl *ast.CaseClause
				use
			}
			irField := func(e ast.Expr) (string, bool) {
				se, ok := unparen(e).(*ast.SelectorExpr)
				if !ok {
					return "", false
				}
				sel, ok := info.Selections[se]
				if !ok || sel.Kind() != types.FieldVal {
					return "", false
				}
				if _, isID := unparen(se.X).(*ast.Ident); !isID {
					return "", false
				}
				if isIRStructPtr(c, info.TypeOf(se.X)) == nil {
					return "", false
				}
				return exprString(se), true
			}
			for _, cc := range sw.Body.List {
				cl := cc.(*ast.CaseClause)
				lhs := map[ast.Expr]bool{}
				for _, st := range cl.Body {
					ast.Inspect(st, func(m ast.Node) bool {
						if as, ok := m.(*ast.AssignStmt); ok {
							for _, l := range as.Lhs {
								if f, ok := irField(l); ok {
									lhs[unparen(l)] = true
									// x.F = append(x.F, …) is an accumulation, not a dependence
									if writes[f] == nil {
										writes[f] = map[*ast.CaseClause]bool{}
									}
									writes[f][cl] = true
								}
							}
						}
						return true
					})
				}
				for _, st := range cl.Body {
					ast.Inspect(st, func(m ast.Node) bool {
						e, ok := m.(ast.Expr)
						if !ok || lhs[e] {
							return true
						}
						if f, ok := irField(e); ok {
							reads = append(reads, struct {
								cl *ast.CaseClause
								use
							}{cl, use{f, e.Pos()}})
						}
						return true
					})
				}
			}
			n++
			o := Obligation{Key: fmt.Sprintf("%s field loop #%d is order-independent", funcKey(fn), n), Pos: c.pos(rs.Pos()), Verdict: OK, Tags: asmTags(fn.Name(), ""),
				Detail: fmt.Sprintf("%d alternatives; no alternative reads a field another one writes", len(sw.Body.List))}
			for _, r := range reads {
				for wcl := range writes[r.field] {
					if wcl != r.cl {
						o.Verdict, o.Pos = VIOL, c.pos(r.pos)
						o.Detail = fmt.Sprintf("the alternative at %s reads %s, which the alternative at %s of the same loop writes: the value is there only when that field comes first in the input (LLVM prints, and accepts, the fields in either order)", c.pos(r.cl.Pos()), r.field, c.pos(wcl.Pos()))
					}
				}
			}
			obs = append(obs, o)
			return true
		})
	})
	return obs
}

// ---------------------------------------------------------------------------
// NUM-PARSE

func init() {
	register(&Rule{
		Name:  "NUM-PARSE",
		Doc:   "every key under which the parser indexes a top-level entity by global identifier has passed through the parser's numbering function (the function that gives an unnamed identifier the next ID and advances the counter): an entity kind indexed without it keeps no number of its own and does not advance the counter, so the IDs of later unnamed entities shift",
		Floor: 1,
		Run:   ruleNUMPARSE,
	})
}

func ruleNUMPARSE(c *Ctx) []Obligation {
	pa := c.pkg(pkgASM)
	info := pa.TypesInfo
	// the numbering function: (ir.GlobalIdent, *integer) → ir.GlobalIdent
	var numbering *types.Func
	c.eachFunc(pkgASM, func(p *packages.Package, fd *ast.FuncDecl, fn *types.Func) {
		sig := fn.Type().(*types.Signature)
		if sig.Params().Len() != 2 || sig.Results().Len() != 1 || !isNamed(sig.Results().At(0).Type(), pkgIR, "GlobalIdent") {
			return
		}
		if !isNamed(sig.Params().At(0).Type(), pkgIR, "GlobalIdent") {
			return
		}
		if pt, ok := sig.Params().At(1).Type().(*types.Pointer); ok {
			if b, ok := pt.Elem().Underlying().(*types.Basic); ok && b.Info()&types.IsInteger != 0 {
				numbering = fn
			}
		}
	})
	if numbering == nil {
		return []Obligation{{Key: "parser-side numbering function", Verdict: UNDECIDED, Detail: "no function (ir.GlobalIdent, *int) ir.GlobalIdent found in package asm"}}
	}
	var obs []Obligation
	// origin of a key expression: true when every definition reaching it is a call of the numbering function
	var numbered func(fd *ast.FuncDecl, fn *types.Func, e ast.Expr, depth int) (bool, string)
	numbered = func(fd *ast.FuncDecl, fn *types.Func, e ast.Expr, depth int) (bool, string) {
		e = unparen(e)
		if call, ok := e.(*ast.CallExpr); ok {
			if calleeOf(info, call) == numbering {
				return true, ""
			}
			return false, exprString(e)
		}
		id, ok := e.(*ast.Ident)
		if !ok || depth > 3 {
			return false, exprString(e)
		}
		obj := info.ObjectOf(id)
		// a parameter: every call site
		sig := fn.Type().(*types.Signature)
		for i := 0; i < sig.Params().Len(); i++ {
			if obj != sig.Params().At(i) {
				continue
			}
			sites := 0
			okAll, bad := true, ""
			c.eachFunc(pkgASM, func(p *packages.Package, cfd *ast.FuncDecl, caller *types.Func) {
				ast.Inspect(cfd.Body, func(n ast.Node) bool {
					if call, ok := n.(*ast.CallExpr); ok && calleeOf(info, call) == fn && i < len(call.Args) {
						sites++
						if ok, why := numbered(cfd, caller, call.Args[i], depth+1); !ok {
							okAll, bad = false, fmt.Sprintf("%s at %s (in %s)", why, c.pos(call.Pos()), caller.Name())
						}
					}
					return true
				})
			})
			if sites == 0 {
				return false, "parameter " + id.Name + " of a function without call sites"
			}
			return okAll, bad
		}
		defs := collectDefs(info, fd.Body)
		ds := defs[obj]
		if len(ds) == 0 {
			return false, exprString(e)
		}
		for _, d := range ds {
			// only the definition in force at this use: the innermost scope defines each `ident` once
			if d.Pos() > e.Pos() {
				continue
			}
			if ok, why := numbered(fd, fn, d, depth+1); !ok {
				return false, why
			}
		}
		return true, ""
	}
	n := 0
	c.eachFunc(pkgASM, func(p *packages.Package, fd *ast.FuncDecl, fn *types.Func) {
		ast.Inspect(fd.Body, func(nd ast.Node) bool {
			as, ok := nd.(*ast.AssignStmt)
			if !ok {
				return true
			}
			for _, l := range as.Lhs {
				ix, ok := unparen(l).(*ast.IndexExpr)
				if !ok || mapFieldName(info, ix.X) != "oldIndex.globals" {
					continue
				}
				n++
				o := Obligation{Key: fmt.Sprintf("%s indexes a global entity #%d under a numbered identifier", funcKey(fn), n), Pos: c.pos(as.Pos()), Verdict: OK, Detail: "key comes from " + numbering.Name()}
				// each definition of the key variable that can reach this store
				if id, ok := unparen(ix.Index).(*ast.Ident); ok {
					// the key variable may be defined once per case clause: judge the definition in the same clause / block
					obj := info.ObjectOf(id)
					var def ast.Expr
					ast.Inspect(fd.Body, func(m ast.Node) bool {
						if a2, ok := m.(*ast.AssignStmt); ok && a2.Tok == token.DEFINE {
							for i, l2 := range a2.Lhs {
								if li, ok := l2.(*ast.Ident); ok && info.Defs[li] == obj && i < len(a2.Rhs) {
									def = a2.Rhs[i]
								}
							}
						}
						return true
					})
					var ok2 bool
					var why string
					if def != nil {
						ok2, why = numbered(fd, fn, def, 0)
					} else {
						ok2, why = numbered(fd, fn, id, 0)
					}
					if !ok2 {
						o.Verdict = VIOL
						o.Detail = fmt.Sprintf("the identifier under which the entity is indexed is %s, which has not passed through %s: an unnamed entity of this kind keeps the ID 0 it was read with (or the textual one) and does not advance the counter, so every later unnamed global, alias, ifunc or function gets a number one too low and valid input is rejected as a duplicate", why, numbering.Name())
					}
				} else if ok2, why := numbered(fd, fn, ix.Index, 0); !ok2 {
					o.Verdict, o.Detail = VIOL, "key "+why+" does not come from "+numbering.Name()
				}
				obs = append(obs, o)
			}
			return true
		})
	})
	return obs
}

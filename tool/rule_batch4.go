package main

import (
	"fmt"
	"go/ast"
	"go/constant"
	"go/parser"
	"go/token"
	"go/types"
	"regexp"
	"sort"
	"strings"

	"golang.org/x/tools/go/packages"
	"golang.org/x/tools/go/ssa"
)

// Rules added after seeded batch 4: NO-GO, IDX-PHASE, NUM-PARSE, ENUM-OMIT, SIB-SET, FLD-LOOP, SUCC-FILL.

func init() {
	register(&Rule{
		Name:  "NO-GO",
		Doc:   "no non-test file of llir/llvm starts a goroutine: the translator's phases share the generator's indices, work list and counters without locks, and printing shares the module, so code run on another goroutine makes one parse (or one print) a data race whose outcome depends on the schedule",
		Floor: 8,
		Run:   ruleNOGO,
	})
}

func firstGoStmt(f *ast.File) token.Pos {
	pos := token.NoPos
	ast.Inspect(f, func(n ast.Node) bool {
		if g, ok := n.(*ast.GoStmt); ok && pos == token.NoPos {
			pos = g.Pos()
		}
		return true
	})
	return pos
}

func ruleNOGO(c *Ctx) []Obligation {
	const positive = "package p\nfunc f(xs []int) { done := make(chan bool); go func() { xs[0] = 1; done <- true }(); <-done }\n"
	if pf, err := parser.ParseFile(token.NewFileSet(), "positive.go", positive, 0); err != nil {
		return []Obligation{{Key: "matcher self-test", Verdict: UNDECIDED, Detail: "positive example does not parse: " + err.Error()}}
	} else if firstGoStmt(pf) == token.NoPos {
		return []Obligation{{Key: "matcher self-test", Verdict: UNDECIDED, Detail: "the matcher does not recognise the positive example"}}
	}
	var obs []Obligation
	for _, p := range c.llvmPkgs() {
		o := Obligation{Key: "package " + shortPkg(p.PkgPath) + " starts no goroutine", Verdict: OK, Detail: fmt.Sprintf("%d files", len(p.Syntax))}
		for _, f := range p.Syntax {
			if pos := firstGoStmt(f); pos != token.NoPos {
				o.Verdict, o.Pos = VIOL, c.pos(pos)
				o.Detail = "a goroutine is started inside the library: the translator's phases (and the printers) share indices, work lists and counters without synchronisation, so the result — or whether the call crashes with `concurrent map read and map write` — depends on the schedule"
				break
			}
		}
		obs = append(obs, o)
	}
	return obs
}

var _ = constant.MakeBool
var _ = sort.Strings
var _ = strings.TrimSpace
var _ = types.Typ
var _ *packages.Package

// ---------------------------------------------------------------------------
// ENUM-OMIT

func init() {
	register(&Rule{
		Name:  "ENUM-OMIT",
		Doc:   "a printer of package ir omits an enum-valued field only at its zero value — the value the translator leaves when the keyword is absent: the guard of every printed enum field, evaluated for every declared member of the enum, is true for every member other than the zero one",
		Floor: 8,
		Run:   ruleENUMOMIT,
	})
}

func ruleENUMOMIT(c *Ctx) []Obligation {
	var obs []Obligation
	enumByType := map[string]*enumTables{}
	for _, et := range c.enumTypes() {
		enumByType[typeKey(et.T)] = et
	}
	for _, path := range []string{pkgIR} {
		c.eachFunc(path, func(p *packages.Package, fd *ast.FuncDecl, fn *types.Func) {
			info := p.TypesInfo
			// printers only: the function returns text or writes to a builder / writer (a switch over
			// a float kind that returns a bit size is not a spelling of the kind)
			text := false
			rs := fn.Type().(*types.Signature).Results()
			for i := 0; i < rs.Len(); i++ {
				if isStringNamed(rs.At(i).Type()) {
					text = true
				}
			}
			if !text {
				ast.Inspect(fd.Body, func(m ast.Node) bool {
					if call, ok := m.(*ast.CallExpr); ok && isWriteCall(info, call) != nil {
						text = true
					}
					return !text
				})
			}
			if !text {
				return
			}
			n := 0
			// switch F { case A, B: <F not printed> … default: <F printed> }
			ast.Inspect(fd.Body, func(nd ast.Node) bool {
				sw, ok := nd.(*ast.SwitchStmt)
				if !ok || sw.Tag == nil || sw.Init != nil {
					return true
				}
				et, isEnum := enumByType[typeKey(info.TypeOf(sw.Tag))]
				if !isEnum {
					return true
				}
				tagS := exprString(sw.Tag)
				mentions := func(sts []ast.Stmt) bool {
					found := false
					for _, st := range sts {
						ast.Inspect(st, func(m ast.Node) bool {
							if e, ok := m.(ast.Expr); ok && exprString(e) == tagS {
								found = true
							}
							return true
						})
					}
					return found
				}
				printedSomewhere := false
				var silent []ast.Expr
				for _, cc := range sw.Body.List {
					cl := cc.(*ast.CaseClause)
					if mentions(cl.Body) {
						printedSomewhere = true
					} else if cl.List != nil {
						silent = append(silent, cl.List...)
					}
				}
				// the switch must be the function's way of spelling the field: some arm prints it and
				// nothing after the switch does
				after := false
				for _, st := range fd.Body.List {
					if st.Pos() > sw.End() && mentions([]ast.Stmt{st}) {
						after = true
					}
				}
				if !printedSomewhere || after || len(silent) == 0 {
					return true
				}
				// arms that spell a member by a constant keyword of their own are not omissions
				n++
				o := Obligation{Key: fmt.Sprintf("%s prints %s unless zero #%d", funcKey(fn), tagS, n), Pos: c.pos(sw.Pos()), Verdict: OK, Tags: []string{"enum"}}
				var dropped []string
				for _, e := range silent {
					tv := info.Types[e]
					if tv.Value == nil {
						continue
					}
					v, _ := constant.Int64Val(constant.ToInt(tv.Value))
					if v != 0 {
						dropped = append(dropped, exprString(e))
					}
				}
				// silent arms are omissions only when they all lead to one and the same text (they
				// share a body / fall out to the same statement): two members, one spelling
				if len(dropped) > 0 && len(silent) > 1 {
					o.Verdict = VIOL
					o.Detail = fmt.Sprintf("the arm(s) for %s do not print the field although they are not its zero value and share their spelling with another member: two values of %s are written as the same text, and the reader can return only one of them", strings.Join(dropped, ", "), et.Short)
				} else {
					o.Detail = fmt.Sprintf("%d arm(s) without the field; none shares a spelling with the zero member", len(silent))
				}
				obs = append(obs, o)
				return true
			})
			ast.Inspect(fd.Body, func(nd ast.Node) bool {
				is, ok := nd.(*ast.IfStmt)
				if !ok || is.Init != nil {
					return true
				}
				// the enum field the condition is about: every non-constant leaf of the condition
				// is one and the same selector of an enum type
				var field ast.Expr
				pure := true
				var leaves func(e ast.Expr)
				leaves = func(e ast.Expr) {
					e = unparen(e)
					if tv := info.Types[e]; tv.Value != nil {
						return
					}
					switch x := e.(type) {
					case *ast.BinaryExpr:
						leaves(x.X)
						leaves(x.Y)
					case *ast.UnaryExpr:
						leaves(x.X)
					case *ast.SelectorExpr, *ast.Ident:
						// a field, or (in a shared helper) the parameter it was passed as
						if _, isEnum := enumByType[typeKey(info.TypeOf(x))]; isEnum {
							if field == nil || exprString(field) == exprString(x) {
								field = x
								return
							}
						}
						pure = false
					default:
						pure = false
					}
				}
				leaves(is.Cond)
				if field == nil || !pure {
					return true
				}
				mentions := func(n ast.Node) bool {
					found := false
					ast.Inspect(n, func(m ast.Node) bool {
						if se, ok := m.(ast.Expr); ok && exprString(se) == exprString(field) {
							found = true
						}
						return true
					})
					return found
				}
				// the body prints that field …
				prints := mentions(is.Body)
				negate := false
				if !prints {
					// … or the guard returns early without it and a later statement prints it:
					//   if F == X { return "kw" }; return fmt.Sprintf("kw(%s)", F)
					early := len(is.Body.List) > 0
					if early {
						_, early = is.Body.List[len(is.Body.List)-1].(*ast.ReturnStmt)
					}
					later := false
					for _, st := range fd.Body.List {
						if st.Pos() > is.End() && mentions(st) {
							later = true
						}
					}
					isTop := false
					for _, st := range fd.Body.List {
						if st == ast.Stmt(is) {
							isTop = true
						}
					}
					if !early || !later || !isTop || is.Else != nil {
						return true
					}
					negate = true
				}
				// default-then-override shape:  s := "kw"; if F != X { s = fmt.Sprintf("kw(%s)", F) }; return s
				// — the members the guard excludes are spelled by the constant default, not dropped
				defaulted := false
				if prints && is.Else == nil && len(is.Body.List) == 1 {
					if as, ok := is.Body.List[0].(*ast.AssignStmt); ok && as.Tok == token.ASSIGN && len(as.Lhs) == 1 {
						if vid, ok := as.Lhs[0].(*ast.Ident); ok {
							for _, st := range fd.Body.List {
								if st.Pos() >= is.Pos() {
									break
								}
								if ds, ok := st.(*ast.AssignStmt); ok && ds.Tok == token.DEFINE && len(ds.Lhs) == 1 && len(ds.Rhs) == 1 {
									if did, ok := ds.Lhs[0].(*ast.Ident); ok && info.ObjectOf(did) == info.ObjectOf(vid) {
										if tv := info.Types[ds.Rhs[0]]; tv.Value != nil && tv.Value.Kind() == constant.String && constant.StringVal(tv.Value) != "" {
											defaulted = true
										}
									}
								}
							}
						}
					}
				}
				et := enumByType[typeKey(info.TypeOf(field))]
				n++
				o := Obligation{Key: fmt.Sprintf("%s prints %s unless zero #%d", funcKey(fn), exprString(field), n), Pos: c.pos(is.Pos()), Verdict: OK, Tags: []string{"enum"}}
				var dropped []string
				seen := map[int64]bool{}
				undecided := false
				for _, d := range et.Declared {
					if seen[d.Val] {
						continue
					}
					seen[d.Val] = true
					ev := &byteEval{info: info, val: d.Val, c: c, isVar: func(e ast.Expr) bool {
						switch e.(type) {
						case *ast.SelectorExpr, *ast.Ident:
							return exprString(e) == exprString(field)
						}
						return false
					}}
					r, ok := ev.eval(is.Cond)
					if !ok || r.Kind() != constant.Bool {
						undecided = true
						break
					}
					if defaulted {
						// the members the guard excludes share the default's spelling
						if !constant.BoolVal(r) {
							dropped = append(dropped, d.Name)
						}
					} else if negate {
						// early-return shape: the members for which the guard holds share the
						// guard's spelling — more than one of them is a collision
						if constant.BoolVal(r) {
							dropped = append(dropped, d.Name)
						}
					} else if !constant.BoolVal(r) && d.Val != 0 {
						dropped = append(dropped, d.Name)
					}
				}
				switch {
				case undecided:
					o.Verdict, o.Detail = UNDECIDED, "the guard could not be evaluated over the members of "+et.Short
				case (negate || defaulted) && len(dropped) <= 1:
					o.Detail = fmt.Sprintf("`%s` selects the short spelling for one member (%s); every other member is spelled with its keyword", exprString(is.Cond), strings.Join(dropped, ""))
				case negate || defaulted:
					o.Verdict = VIOL
					o.Detail = fmt.Sprintf("the guard `%s` gives %s one and the same spelling: two values of %s are written as the same text, and the reader can return only one of them", exprString(is.Cond), strings.Join(dropped, ", "), et.Short)
				case len(dropped) > 0:
					o.Verdict = VIOL
					o.Detail = fmt.Sprintf("the guard `%s` also suppresses %s: the keyword is not printed for that value, and the translator leaves the zero value when the keyword is absent, so the value does not survive printing and parsing", exprString(is.Cond), strings.Join(dropped, ", "))
				default:
					o.Detail = fmt.Sprintf("`%s` holds for all %d non-zero members of %s", exprString(is.Cond), len(seen)-1, et.Short)
				}
				obs = append(obs, o)
				return true
			})
		})
	}
	return obs
}

// ---------------------------------------------------------------------------
// SIB-SET

func init() {
	register(&Rule{
		Name:  "SIB-SET",
		Doc:   "in a dispatcher of package asm that returns a freshly built object per grammar alternative as one IR interface (newMetadataDef → metadata.Definition), the sibling alternatives apply the same setters of that interface to what they return: a setter every kind supports (SetID, SetDistinct) that one alternative applies and another does not is a dropped attribute",
		Floor: 1,
		Run:   ruleSIBSET,
	})
}

func ruleSIBSET(c *Ctx) []Obligation {
	var obs []Obligation
	c.eachFunc(pkgASM, func(p *packages.Package, fd *ast.FuncDecl, fn *types.Func) {
		info := p.TypesInfo
		sig := fn.Type().(*types.Signature)
		if sig.Results().Len() < 1 {
			return
		}
		rt := sig.Results().At(0).Type()
		in := namedOf(rt)
		if in == nil || !types.IsInterface(rt) || in.Obj().Pkg() == nil || !c.isLLVM(in.Obj().Pkg().Path()) {
			return
		}
		iface := in.Underlying().(*types.Interface)
		setters := map[string]bool{}
		for i := 0; i < iface.NumMethods(); i++ {
			if m := iface.Method(i); strings.HasPrefix(m.Name(), "Set") {
				setters[m.Name()] = true
			}
		}
		if len(setters) == 0 {
			return
		}
		ast.Inspect(fd.Body, func(nd ast.Node) bool {
			sw, ok := nd.(*ast.TypeSwitchStmt)
			if !ok {
				return true
			}
			type arm struct {
				label string
				pos   token.Pos
				calls map[string]bool
			}
			var arms []arm
			// the variable returned after the switch, and the setters applied to it there
			var tailObj types.Object
			tailCalls := map[string]bool{}
			ast.Inspect(fd.Body, func(m ast.Node) bool {
				if r, ok := m.(*ast.ReturnStmt); ok && r.Pos() > sw.End() && len(r.Results) >= 1 && tailObj == nil {
					if id, ok := unparen(r.Results[0]).(*ast.Ident); ok && id.Name != "nil" {
						tailObj = info.ObjectOf(id)
					}
				}
				return true
			})
			if tailObj != nil {
				ast.Inspect(fd.Body, func(m ast.Node) bool {
					if call, ok := m.(*ast.CallExpr); ok && call.Pos() > sw.End() {
						if se, ok := unparen(call.Fun).(*ast.SelectorExpr); ok && setters[se.Sel.Name] {
							if x, ok := unparen(se.X).(*ast.Ident); ok && info.ObjectOf(x) == tailObj {
								tailCalls[se.Sel.Name] = true
							}
						}
					}
					return true
				})
			}
			for _, cc := range sw.Body.List {
				cl := cc.(*ast.CaseClause)
				if cl.List == nil || len(cl.Body) == 0 {
					continue
				}
				var obj types.Object
				if r, ok := cl.Body[len(cl.Body)-1].(*ast.ReturnStmt); ok {
					if len(r.Results) < 1 {
						continue
					}
					id, ok := unparen(r.Results[0]).(*ast.Ident)
					if !ok || id.Name == "nil" {
						continue
					}
					obj = info.ObjectOf(id)
				} else if tailObj != nil {
					// single exit: the arm assigns the variable that the statements after the switch
					// finish and return
					for _, st := range cl.Body {
						if as, ok := st.(*ast.AssignStmt); ok {
							for _, l := range as.Lhs {
								if id, ok := l.(*ast.Ident); ok && info.ObjectOf(id) == tailObj {
									obj = tailObj
								}
							}
						}
					}
				}
				if obj == nil {
					continue
				}
				a := arm{pos: cl.Pos(), calls: map[string]bool{}}
				if obj == tailObj {
					for k := range tailCalls {
						a.calls[k] = true
					}
				}
				var ls []string
				for _, e := range cl.List {
					ls = append(ls, exprString(e))
				}
				a.label = strings.Join(ls, ", ")
				for _, st := range cl.Body {
					ast.Inspect(st, func(m ast.Node) bool {
						if call, ok := m.(*ast.CallExpr); ok {
							if se, ok := unparen(call.Fun).(*ast.SelectorExpr); ok && setters[se.Sel.Name] {
								if x, ok := unparen(se.X).(*ast.Ident); ok && info.ObjectOf(x) == obj {
									a.calls[se.Sel.Name] = true
								}
							}
						}
						return true
					})
				}
				arms = append(arms, a)
			}
			if len(arms) < 2 {
				return true
			}
			union := map[string]bool{}
			for _, a := range arms {
				for k := range a.calls {
					union[k] = true
				}
			}
			if len(union) == 0 {
				return true
			}
			for _, a := range arms {
				o := Obligation{Key: fmt.Sprintf("%s case %s applies the setters its siblings apply", funcKey(fn), a.label), Pos: c.pos(a.pos), Verdict: OK, Tags: asmTags(fn.Name(), typeKey(rt))}
				var missing []string
				for k := range union {
					if !a.calls[k] {
						missing = append(missing, k)
					}
				}
				sort.Strings(missing)
				if len(missing) > 0 {
					o.Verdict = VIOL
					o.Detail = fmt.Sprintf("the object returned for %s never receives %s, which a sibling alternative of the same dispatcher applies to its result (every %s supports it): for this alternative the attribute the input states is dropped", a.label, strings.Join(missing, ", "), typeKey(rt))
				} else {
					o.Detail = strings.Join(sortedKeys(union), ", ")
				}
				obs = append(obs, o)
			}
			return true
		})
	})
	return obs
}

// ---------------------------------------------------------------------------
// FLD-LOOP

func init() {
	register(&Rule{
		Name:  "FLD-LOOP",
		Doc:   "in a translator's loop over the fields of a node (a type switch inside a range), no alternative reads a field of the object under construction that another alternative of the same loop writes: the grammar fixes no order among `key: value` fields, so such a read sees the value only for one order of the input",
		Floor: 20,
		Run:   ruleFLDLOOP,
	})
}

func ruleFLDLOOP(c *Ctx) []Obligation {
	var obs []Obligation
	c.eachFunc(pkgASM, func(p *packages.Package, fd *ast.FuncDecl, fn *types.Func) {
		info := p.TypesInfo
		n := 0
		ast.Inspect(fd.Body, func(nd ast.Node) bool {
			rs, ok := nd.(*ast.RangeStmt)
			if !ok {
				return true
			}
			var sw *ast.TypeSwitchStmt
			for _, st := range rs.Body.List {
				if s, ok := st.(*ast.TypeSwitchStmt); ok {
					sw = s
				}
			}
			if sw == nil {
				return true
			}
			// per clause: IR fields written and read through one local object
			type use struct {
				field string
				pos   token.Pos
			}
			writes := map[string]map[*ast.CaseClause]bool{}
			var reads []struct {
				cl *ast.CaseClause
				use
			}
			irField := func(e ast.Expr) (string, bool) {
				se, ok := unparen(e).(*ast.SelectorExpr)
				if !ok {
					return "", false
				}
				sel, ok := info.Selections[se]
				if !ok || sel.Kind() != types.FieldVal {
					return "", false
				}
				if _, isID := unparen(se.X).(*ast.Ident); !isID {
					return "", false
				}
				if isIRStructPtr(c, info.TypeOf(se.X)) == nil {
					return "", false
				}
				return exprString(se), true
			}
			for _, cc := range sw.Body.List {
				cl := cc.(*ast.CaseClause)
				lhs := map[ast.Expr]bool{}
				for _, st := range cl.Body {
					ast.Inspect(st, func(m ast.Node) bool {
						if as, ok := m.(*ast.AssignStmt); ok {
							for _, l := range as.Lhs {
								if f, ok := irField(l); ok {
									lhs[unparen(l)] = true
									// x.F = append(x.F, …) is an accumulation, not a dependence
									if writes[f] == nil {
										writes[f] = map[*ast.CaseClause]bool{}
									}
									writes[f][cl] = true
								}
							}
						}
						return true
					})
				}
				for _, st := range cl.Body {
					ast.Inspect(st, func(m ast.Node) bool {
						e, ok := m.(ast.Expr)
						if !ok || lhs[e] {
							return true
						}
						if f, ok := irField(e); ok {
							reads = append(reads, struct {
								cl *ast.CaseClause
								use
							}{cl, use{f, e.Pos()}})
						}
						return true
					})
				}
			}
			n++
			o := Obligation{Key: fmt.Sprintf("%s field loop #%d is order-independent", funcKey(fn), n), Pos: c.pos(rs.Pos()), Verdict: OK, Tags: asmTags(fn.Name(), ""),
				Detail: fmt.Sprintf("%d alternatives; no alternative reads a field another one writes", len(sw.Body.List))}
			for _, r := range reads {
				for wcl := range writes[r.field] {
					if wcl != r.cl {
						o.Verdict, o.Pos = VIOL, c.pos(r.pos)
						o.Detail = fmt.Sprintf("the alternative at %s reads %s, which the alternative at %s of the same loop writes: the value is there only when that field comes first in the input (LLVM prints, and accepts, the fields in either order)", c.pos(r.cl.Pos()), r.field, c.pos(wcl.Pos()))
					}
				}
			}
			obs = append(obs, o)
			return true
		})
	})
	return obs
}

// ---------------------------------------------------------------------------
// NUM-PARSE

func init() {
	register(&Rule{
		Name:  "NUM-PARSE",
		Doc:   "every key under which the parser indexes a top-level entity by global identifier has passed through the parser's numbering function (the function that gives an unnamed identifier the next ID and advances the counter): an entity kind indexed without it keeps no number of its own and does not advance the counter, so the IDs of later unnamed entities shift",
		Floor: 1,
		Run:   ruleNUMPARSE,
	})
}

func ruleNUMPARSE(c *Ctx) []Obligation {
	pa := c.pkg(pkgASM)
	info := pa.TypesInfo
	// the numbering step: a function of package asm that stores a counter-derived ID into an
	// ir.GlobalIdent (x.SetID(*ctr) … *ctr++), whatever its signature — a pure function
	// (ident, *ctr) → ident, or the indexing helper itself when the step is inlined into it
	numberingOf := map[*types.Func]types.Object{} // → the variable that is numbered there
	numberingAt := map[*types.Func]token.Pos{}
	var numNames []string
	c.eachFunc(pkgASM, func(p *packages.Package, fd *ast.FuncDecl, fn *types.Func) {
		counters := map[types.Object]bool{}
		ast.Inspect(fd.Body, func(n ast.Node) bool {
			if s, ok := n.(*ast.IncDecStmt); ok && s.Tok == token.INC {
				e := unparen(s.X)
				if st, ok := e.(*ast.StarExpr); ok {
					e = unparen(st.X)
				}
				if id, ok := e.(*ast.Ident); ok {
					counters[info.ObjectOf(id)] = true
				}
			}
			return true
		})
		if len(counters) == 0 {
			return
		}
		ast.Inspect(fd.Body, func(n ast.Node) bool {
			call, ok := n.(*ast.CallExpr)
			if !ok {
				return true
			}
			objE, idE, ok := c.idSetCall(info, call)
			if !ok {
				return true
			}
			t := info.TypeOf(objE)
			if pt, ok := t.(*types.Pointer); ok {
				t = pt.Elem()
			}
			if !isNamed(t, pkgIR, "GlobalIdent") {
				return true
			}
			derived := false
			ast.Inspect(idE, func(m ast.Node) bool {
				if id, ok := m.(*ast.Ident); ok && counters[info.ObjectOf(id)] {
					derived = true
				}
				return true
			})
			if !derived {
				return true
			}
			if id, ok := unparen(objE).(*ast.Ident); ok {
				if _, dup := numberingOf[fn]; !dup {
					numberingOf[fn] = info.ObjectOf(id)
					numberingAt[fn] = call.Pos()
					numNames = append(numNames, fn.Name())
				}
			}
			return true
		})
	})
	if len(numberingOf) == 0 {
		return []Obligation{{Key: "parser-side numbering function", Verdict: UNDECIDED, Detail: "no function of package asm stores a counter-derived ID into an ir.GlobalIdent"}}
	}
	sort.Strings(numNames)
	numName := strings.Join(numNames, " / ")
	var obs []Obligation
	// origin of a key expression: true when every definition reaching it is a call of the numbering function
	var numbered func(fd *ast.FuncDecl, fn *types.Func, e ast.Expr, depth int) (bool, string)
	numbered = func(fd *ast.FuncDecl, fn *types.Func, e ast.Expr, depth int) (bool, string) {
		e = unparen(e)
		if call, ok := e.(*ast.CallExpr); ok {
			if _, isNum := numberingOf[calleeOf(info, call)]; isNum {
				return true, ""
			}
			return false, exprString(e)
		}
		id, ok := e.(*ast.Ident)
		if !ok || depth > 3 {
			return false, exprString(e)
		}
		obj := info.ObjectOf(id)
		// the variable this very function numbers (the step is inlined here), used after the step
		if numberingOf[fn] == obj && numberingAt[fn] < e.Pos() {
			return true, ""
		}
		// a parameter: every call site
		sig := fn.Type().(*types.Signature)
		for i := 0; i < sig.Params().Len(); i++ {
			if obj != sig.Params().At(i) {
				continue
			}
			sites := 0
			okAll, bad := true, ""
			c.eachFunc(pkgASM, func(p *packages.Package, cfd *ast.FuncDecl, caller *types.Func) {
				ast.Inspect(cfd.Body, func(n ast.Node) bool {
					if call, ok := n.(*ast.CallExpr); ok && calleeOf(info, call) == fn && i < len(call.Args) {
						sites++
						if ok, why := numbered(cfd, caller, call.Args[i], depth+1); !ok {
							okAll, bad = false, fmt.Sprintf("%s at %s (in %s)", why, c.pos(call.Pos()), caller.Name())
						}
					}
					return true
				})
			})
			if sites == 0 {
				return false, "parameter " + id.Name + " of a function without call sites"
			}
			return okAll, bad
		}
		defs := collectDefs(info, fd.Body)
		ds := defs[obj]
		if len(ds) == 0 {
			return false, exprString(e)
		}
		for _, d := range ds {
			// only the definition in force at this use: the innermost scope defines each `ident` once
			if d.Pos() > e.Pos() {
				continue
			}
			if ok, why := numbered(fd, fn, d, depth+1); !ok {
				return false, why
			}
		}
		return true, ""
	}
	// the counter handed to the numbering function (&id) is advanced by that function only
	c.eachFunc(pkgASM, func(p *packages.Package, fd *ast.FuncDecl, fn *types.Func) {
		counters := map[types.Object]token.Pos{}
		ast.Inspect(fd.Body, func(nd ast.Node) bool {
			if call, ok := nd.(*ast.CallExpr); ok {
				if _, isNum := numberingOf[calleeOf(info, call)]; isNum {
					for _, a := range call.Args {
						if ue, ok := unparen(a).(*ast.UnaryExpr); ok && ue.Op == token.AND {
							if id, ok := unparen(ue.X).(*ast.Ident); ok {
								counters[info.ObjectOf(id)] = call.Pos()
							}
						}
					}
				}
			}
			return true
		})
		for obj := range counters {
			o := Obligation{Key: fmt.Sprintf("%s: the counter %s is advanced by %s only", funcKey(fn), obj.Name(), numName), Pos: c.pos(obj.Pos()), Verdict: OK, Detail: "declared once, never assigned elsewhere"}
			ast.Inspect(fd.Body, func(nd ast.Node) bool {
				switch x := nd.(type) {
				case *ast.AssignStmt:
					for _, l := range x.Lhs {
						if id, ok := unparen(l).(*ast.Ident); ok && info.ObjectOf(id) == obj && info.Defs[id] == nil {
							o.Verdict, o.Pos = VIOL, c.pos(x.Pos())
							o.Detail = fmt.Sprintf("`%s = …` assigns the counter of unnamed global identifiers (it is not a new variable: `=` where a `:=` declares a local of the same name): the next unnamed global, alias, ifunc or function is numbered from this value, so valid input is rejected or a reference binds to another entity", obj.Name())
						}
					}
				case *ast.IncDecStmt:
					if id, ok := unparen(x.X).(*ast.Ident); ok && info.ObjectOf(id) == obj {
						o.Verdict, o.Pos, o.Detail = VIOL, c.pos(x.Pos()), "the counter of unnamed global identifiers is modified outside the numbering function"
					}
				}
				return true
			})
			obs = append(obs, o)
		}
	})
	n := 0
	c.eachFunc(pkgASM, func(p *packages.Package, fd *ast.FuncDecl, fn *types.Func) {
		ast.Inspect(fd.Body, func(nd ast.Node) bool {
			as, ok := nd.(*ast.AssignStmt)
			if !ok {
				return true
			}
			for _, l := range as.Lhs {
				ix, ok := unparen(l).(*ast.IndexExpr)
				if !ok || mapFieldName(info, ix.X) != "oldIndex.globals" {
					continue
				}
				n++
				o := Obligation{Key: fmt.Sprintf("%s indexes a global entity #%d under a numbered identifier", funcKey(fn), n), Pos: c.pos(as.Pos()), Verdict: OK, Detail: "key comes from " + numName}
				// each definition of the key variable that can reach this store
				if id, ok := unparen(ix.Index).(*ast.Ident); ok {
					// the key variable may be defined once per case clause: judge the definition in the same clause / block
					obj := info.ObjectOf(id)
					var def ast.Expr
					ast.Inspect(fd.Body, func(m ast.Node) bool {
						if a2, ok := m.(*ast.AssignStmt); ok && a2.Tok == token.DEFINE {
							for i, l2 := range a2.Lhs {
								if li, ok := l2.(*ast.Ident); ok && info.Defs[li] == obj && i < len(a2.Rhs) {
									def = a2.Rhs[i]
								}
							}
						}
						return true
					})
					var ok2 bool
					var why string
					if numberingOf[fn] == obj && numberingAt[fn] < ix.Pos() {
						ok2 = true
					} else if def != nil {
						ok2, why = numbered(fd, fn, def, 0)
					} else {
						ok2, why = numbered(fd, fn, id, 0)
					}
					if !ok2 {
						o.Verdict = VIOL
						o.Detail = fmt.Sprintf("the identifier under which the entity is indexed is %s, which has not passed through %s: an unnamed entity of this kind keeps the ID 0 it was read with (or the textual one) and does not advance the counter, so every later unnamed global, alias, ifunc or function gets a number one too low and valid input is rejected as a duplicate", why, numName)
					}
				} else if ok2, why := numbered(fd, fn, ix.Index, 0); !ok2 {
					o.Verdict, o.Detail = VIOL, "key "+why+" does not come from "+numName
				}
				obs = append(obs, o)
			}
			return true
		})
	})
	return obs
}

// ---------------------------------------------------------------------------
// NUM-FIRST

func init() {
	register(&Rule{
		Name:  "NUM-FIRST",
		Doc:   "every printer of package ir that calls a numbering routine (AssignIDs, AssignGlobalIDs, AssignMetadataIDs — the functions holding the ID-setting calls) calls it unconditionally: the call is a top-level statement of the printer (or the Init of a top-level `if err := …; err != nil`), directly or in a helper called that way, so no variant of the entity (a declaration, an empty module) is printed with unnumbered identifiers",
		Floor: 2,
		Run:   ruleNUMFIRST,
	})
}

func ruleNUMFIRST(c *Ctx) []Obligation {
	var obs []Obligation
	info := c.pkg(pkgIR).TypesInfo
	routines := map[*types.Func]bool{}
	for _, sc := range c.setIDCalls() {
		// the routine is the exported method that (transitively) holds the call
		routines[sc.fn] = true
	}
	// helpers / method objects: climb to the exported numbering methods
	for round := 0; round < 5; round++ {
		c.eachFunc(pkgIR, func(p *packages.Package, fd *ast.FuncDecl, fn *types.Func) {
			if routines[fn] {
				return
			}
			ast.Inspect(fd.Body, func(n ast.Node) bool {
				if call, ok := n.(*ast.CallExpr); ok {
					// an unexported helper (or a method of a method object) on the way up, or the exported
					// Assign… method at the top
					if g := calleeOf(info, call); g != nil && routines[g] && !g.Exported() && (strings.HasPrefix(fn.Name(), "Assign") || !fn.Exported()) {
						routines[fn] = true
					}
				}
				return true
			})
		})
	}
	// unconditional(call in fd): the statement holding the call is a top-level statement of the body
	unconditional := func(fd *ast.FuncDecl, call *ast.CallExpr) (bool, string) {
		pm := buildParents(fd.Body)
		var child ast.Node = call
		for p := pm[call]; p != nil; child, p = p, pm[p] {
			switch p := p.(type) {
			case *ast.ExprStmt, *ast.AssignStmt, *ast.ParenExpr:
				continue
			case *ast.IfStmt:
				if p.Init != nil && child == ast.Node(p.Init) {
					continue
				}
				// `if f.Parent != nil { f.Parent.AssignGlobalIDs() }`: a nil test of the very object the
				// routine is invoked on — without it there is nothing to number (and the call would panic)
				if be, ok := unparen(p.Cond).(*ast.BinaryExpr); ok && be.Op == token.NEQ && exprString(be.Y) == "nil" && child == ast.Node(p.Body) {
					if se, ok := unparen(call.Fun).(*ast.SelectorExpr); ok && exprString(se.X) == exprString(be.X) {
						continue
					}
				}
				return false, "inside `if " + exprString(p.Cond) + "`"
			case *ast.BlockStmt:
				if p == fd.Body {
					return true, ""
				}
				continue
			case *ast.CaseClause:
				return false, "inside a case clause"
			case *ast.ForStmt, *ast.RangeStmt:
				continue // once per element (each function is numbered before it is printed)
			case *ast.FuncLit:
				return false, "inside a function literal"
			}
		}
		return true, ""
	}
	var check func(fd *ast.FuncDecl, fn *types.Func, call *ast.CallExpr, routine *types.Func, depth int)
	check = func(fd *ast.FuncDecl, fn *types.Func, call *ast.CallExpr, routine *types.Func, depth int) {
		ok, why := unconditional(fd, call)
		if printRootNames[fn.Name()] || fn.Exported() || depth >= 2 {
			o := Obligation{Key: fmt.Sprintf("%s numbers through %s unconditionally", funcKey(fn), routine.Name()), Pos: c.pos(call.Pos()), Verdict: OK, Detail: "top-level statement of the printer, before anything is written"}
			// nothing is written before the numbering
			if ok {
				writes := func(n ast.Node) bool {
					found := false
					ast.Inspect(n, func(m ast.Node) bool {
						if _, isLit := m.(*ast.FuncLit); isLit {
							return false // defining a closure writes nothing
						}
						c2, isCall := m.(*ast.CallExpr)
						if !isCall {
							return true
						}
						if isWriteCall(info, c2) != nil {
							found = true
						}
						if g := calleeOf(info, c2); g != nil && g.Pkg() != nil && g.Pkg().Path() == pkgIR && !routines[g] {
							if gfd := c.funcDecl(g); gfd != nil && gfd.Body != nil && gfd != fd {
								ast.Inspect(gfd.Body, func(q ast.Node) bool {
									if c3, ok := q.(*ast.CallExpr); ok && isWriteCall(info, c3) != nil {
										found = true
									}
									return true
								})
							}
						}
						return true
					})
					return found
				}
				// the statements that precede the call: of the function body, or — when the call
				// numbers one element of a loop (each function of a module) — of that loop's body
				list := fd.Body.List
				pm := buildParents(fd.Body)
				for p := pm[call]; p != nil; p = pm[p] {
					if rs, isLoop := p.(*ast.RangeStmt); isLoop {
						list = rs.Body.List
						break
					}
					if fs, isLoop := p.(*ast.ForStmt); isLoop {
						list = fs.Body.List
						break
					}
				}
				for _, st := range list {
					if st.Pos() <= call.Pos() && call.End() <= st.End() {
						break
					}
					if writes(st) {
						ok, why = false, "after output has started (at "+c.pos(st.Pos())+")"
						break
					}
				}
			}
			if !ok {
				o.Verdict = VIOL
				o.Detail = fmt.Sprintf("%s is called %s: on the other paths the entity is printed without numbering its unnamed values — every unnamed parameter of a declaration prints as %%0, or references print as inline bodies", routine.Name(), why)
			}
			obs = append(obs, o)
			return
		}
		// an unexported helper: judged at its callers, and the call inside it must be unconditional too
		if !ok {
			obs = append(obs, Obligation{Key: fmt.Sprintf("%s numbers through %s unconditionally", funcKey(fn), routine.Name()), Pos: c.pos(call.Pos()), Verdict: VIOL,
				Detail: fmt.Sprintf("%s is called %s in the helper %s", routine.Name(), why, fn.Name())})
			return
		}
		// climb to the callers that print the same entity (methods on the same receiver type): the
		// printer of a function called from the module's printer is judged on its own
		recvOf := func(f *types.Func) *types.Named {
			if r := f.Type().(*types.Signature).Recv(); r != nil {
				return namedOf(r.Type())
			}
			return nil
		}
		climbed := false
		c.eachFunc(pkgIR, func(p *packages.Package, cfd *ast.FuncDecl, caller *types.Func) {
			if recvOf(caller) == nil || recvOf(caller) != recvOf(fn) {
				return
			}
			ast.Inspect(cfd.Body, func(n ast.Node) bool {
				if c2, ok := n.(*ast.CallExpr); ok && calleeOf(info, c2) == fn {
					climbed = true
					check(cfd, caller, c2, routine, depth+1)
				}
				return true
			})
		})
		if !climbed {
			obs = append(obs, Obligation{Key: fmt.Sprintf("%s numbers through %s unconditionally", funcKey(fn), routine.Name()), Pos: c.pos(call.Pos()), Verdict: OK, Detail: "top-level statement of the entity's printer"})
		}
	}
	c.eachFunc(pkgIR, func(p *packages.Package, fd *ast.FuncDecl, fn *types.Func) {
		if routines[fn] {
			return
		}
		ast.Inspect(fd.Body, func(n ast.Node) bool {
			if call, ok := n.(*ast.CallExpr); ok {
				if g := calleeOf(info, call); g != nil && routines[g] && g.Exported() {
					check(fd, fn, call, g, 0)
				}
			}
			return true
		})
	})
	// the module printer numbers the locals of every function before it writes anything: a global
	// printed ahead of the functions may name a local of one of them (blockaddress(@f, %2))
	c.eachFunc(pkgIR, func(p *packages.Package, fd *ast.FuncDecl, fn *types.Func) {
		if routines[fn] {
			return
		}
		// the module printer: a method of *Module that calls two module-level routines (global and
		// metadata IDs) at its top level
		if r := fn.Type().(*types.Signature).Recv(); r == nil || !isNamedPtr(r.Type(), pkgIR, "Module") {
			return
		}
		modRoutines := 0
		for _, st := range fd.Body.List {
			ast.Inspect(st, func(n ast.Node) bool {
				if call, ok := n.(*ast.CallExpr); ok {
					if g := calleeOf(info, call); g != nil && routines[g] && g.Exported() {
						if r := g.Type().(*types.Signature).Recv(); r != nil && isNamedPtr(r.Type(), pkgIR, "Module") {
							modRoutines++
						}
					}
				}
				return true
			})
		}
		if modRoutines < 2 {
			return
		}
		o := Obligation{Key: funcKey(fn) + " numbers the locals of every function before the first write", Pos: c.pos(fd.Pos()), Verdict: VIOL,
			Detail: "no loop over the module's functions that calls the local-ID routine stands ahead of the first write: the locals of a function are numbered only when that function is printed, so a global printed before it that refers to one of its unnamed blocks (blockaddress(@f, <unnamed block>)) shows the unassigned ID on the first print (%0) and the right one on the second — two prints in a row differ, and the first names another value"}
		firstWrite := token.NoPos
		for _, st := range fd.Body.List {
			w := false
			ast.Inspect(st, func(n ast.Node) bool {
				if _, isLit := n.(*ast.FuncLit); isLit {
					return false
				}
				if call, ok := n.(*ast.CallExpr); ok {
					if isWriteCall(info, call) != nil {
						w = true
					}
					if se, ok := unparen(call.Fun).(*ast.SelectorExpr); ok && strings.HasPrefix(se.Sel.Name, "Fprint") {
						w = true
					}
				}
				return !w
			})
			if w {
				firstWrite = st.Pos()
				break
			}
		}
		for _, st := range fd.Body.List {
			if firstWrite != token.NoPos && st.Pos() >= firstWrite {
				break
			}
			rs, ok := st.(*ast.RangeStmt)
			if !ok || !strings.HasSuffix(exprString(rs.X), ".Funcs") {
				continue
			}
			ast.Inspect(rs.Body, func(n ast.Node) bool {
				if call, ok := n.(*ast.CallExpr); ok {
					if g := calleeOf(info, call); g != nil && routines[g] {
						if r := g.Type().(*types.Signature).Recv(); r != nil && isNamedPtr(r.Type(), pkgIR, "Func") {
							o.Verdict, o.Pos, o.Detail = OK, c.pos(call.Pos()), "every function is numbered in a loop ahead of the first write"
						}
					}
				}
				return true
			})
		}
		obs = append(obs, o)
	})
	return obs
}

// ---------------------------------------------------------------------------
// NUM-VALID

func init() {
	register(&Rule{
		Name:  "NUM-VALID",
		Doc:   "the numbering routines of local and global IDs, on which the parser relies to validate explicit %N / @N, reject exactly the explicit IDs that differ from the position: the condition of their failing branch, evaluated over small values of (current ID, position counter), is `current != 0 && current != position` (0 doubles as `not yet assigned`) — a weaker test lets a duplicate or out-of-order ID be renumbered silently",
		Floor: 2,
		Run:   ruleNUMVALID,
	})
}

func ruleNUMVALID(c *Ctx) (obs []Obligation) {
	perSpaceFns := map[string][]string{}
	// a space numbered by several routines (a validating one and a renumbering variant): the
	// variant without any failing branch is fine as long as one routine validates
	defer func() {
		validated := map[string]bool{}
		spaceOf := func(o Obligation) string {
			for _, sp := range []string{"local", "global"} {
				if strings.HasPrefix(o.Key, "numbering of "+sp+" IDs") {
					return sp
				}
			}
			return ""
		}
		for _, o := range obs {
			if o.Verdict == OK {
				validated[spaceOf(o)] = true
			}
		}
		for i := range obs {
			if obs[i].Verdict == UNDECIDED && obs[i].Detail == "no failing branch on the current ID found" && validated[spaceOf(obs[i])] {
				obs[i].Verdict, obs[i].Detail = OK, "this routine re-derives the IDs from position without validating; another routine of the same ID space validates explicit IDs"
			}
		}
	}()
	info := c.pkg(pkgIR).TypesInfo
	done := map[*ast.FuncDecl]bool{}
	for _, sc := range c.setIDCalls() {
		if done[sc.fd] {
			continue
		}
		done[sc.fd] = true
		spaces := c.idSpaceOfStore(info, sc.fn, sc.recv)
		if strings.Trim(strings.ReplaceAll(strings.ReplaceAll(spaces, "local", ""), "global", ""), "+") != "" {
			continue
		}
		for _, space := range strings.Split(spaces, "+") {
			curS := strings.ReplaceAll(exprString(sc.recv), " ", "") + ".ID()"
			posS := strings.ReplaceAll(exprString(sc.arg), " ", "")
			// locals that hold the current ID (cur := n.ID()) read like the call itself
			curLocals := map[string]bool{}
			ast.Inspect(sc.fd.Body, func(nd ast.Node) bool {
				if as, ok := nd.(*ast.AssignStmt); ok && len(as.Lhs) == 1 && len(as.Rhs) == 1 {
					if strings.ReplaceAll(exprString(as.Rhs[0]), " ", "") == curS {
						if id, ok := as.Lhs[0].(*ast.Ident); ok {
							curLocals[id.Name] = true
						}
					}
				}
				return true
			})
			o := Obligation{Key: "numbering of " + space + " IDs rejects exactly the explicit IDs that differ from the position", Pos: c.pos(sc.fd.Pos()), Verdict: UNDECIDED, Detail: "no failing branch on the current ID found"}
			perSpaceFns[space] = append(perSpaceFns[space], funcKey(sc.fn))
			if k := len(perSpaceFns[space]); k > 1 {
				o.Key += fmt.Sprintf(" (routine #%d: %s)", k, funcKey(sc.fn))
			}
			ast.Inspect(sc.fd.Body, func(nd ast.Node) bool {
				is, ok := nd.(*ast.IfStmt)
				if !ok || !(returnsError(info, is.Body.List) || endsInPanic(is.Body.List)) {
					return true
				}
				cond := strings.ReplaceAll(exprString(is.Cond), " ", "")
				mentionsCur := strings.Contains(cond, curS)
				for l := range curLocals {
					if regexp.MustCompile(`\b` + regexp.QuoteMeta(l) + `\b`).MatchString(cond) {
						mentionsCur = true
					}
				}
				if !mentionsCur {
					return true
				}
				// evaluate over (cur, pos) ∈ {0..3}²; other leaves make the condition undecidable here
				var eval func(e ast.Expr, cur, pos int64) (constant.Value, bool)
				eval = func(e ast.Expr, cur, pos int64) (constant.Value, bool) {
					e = unparen(e)
					if tv := info.Types[e]; tv.Value != nil {
						return tv.Value, true
					}
					switch es := strings.ReplaceAll(exprString(e), " ", ""); {
					case es == curS || curLocals[es]:
						return constant.MakeInt64(cur), true
					case es == posS:
						return constant.MakeInt64(pos), true
					}
					switch x := e.(type) {
					case *ast.UnaryExpr:
						if v, ok := eval(x.X, cur, pos); ok && x.Op == token.NOT && v.Kind() == constant.Bool {
							return constant.MakeBool(!constant.BoolVal(v)), true
						}
					case *ast.BinaryExpr:
						a, ok1 := eval(x.X, cur, pos)
						b, ok2 := eval(x.Y, cur, pos)
						if !ok1 || !ok2 {
							return nil, false
						}
						switch x.Op {
						case token.LAND:
							return constant.MakeBool(constant.BoolVal(a) && constant.BoolVal(b)), a.Kind() == constant.Bool && b.Kind() == constant.Bool
						case token.LOR:
							return constant.MakeBool(constant.BoolVal(a) || constant.BoolVal(b)), a.Kind() == constant.Bool && b.Kind() == constant.Bool
						case token.EQL, token.NEQ, token.LSS, token.LEQ, token.GTR, token.GEQ:
							if a.Kind() == constant.Int && b.Kind() == constant.Int {
								return constant.MakeBool(constant.Compare(a, x.Op, b)), true
							}
						}
					case *ast.CallExpr: // conversions int64(x)
						if tv, ok := info.Types[x.Fun]; ok && tv.IsType() && len(x.Args) == 1 {
							return eval(x.Args[0], cur, pos)
						}
					}
					return nil, false
				}
				var wrong []string
				decidable := true
				for cur := int64(0); cur < 4 && decidable; cur++ {
					for pos := int64(0); pos < 4; pos++ {
						v, ok := eval(is.Cond, cur, pos)
						if !ok || v.Kind() != constant.Bool {
							decidable = false
							break
						}
						want := cur != 0 && cur != pos
						if constant.BoolVal(v) != want {
							wrong = append(wrong, fmt.Sprintf("(current %d, position %d): fails=%v, want %v", cur, pos, constant.BoolVal(v), want))
						}
					}
				}
				o.Pos = c.pos(is.Pos())
				switch {
				case !decidable:
					o.Verdict, o.Detail = OK, "the failing condition `"+exprString(is.Cond)+"` involves state other than the current ID and the position: not decided by this rule"
				case len(wrong) > 0:
					o.Verdict = VIOL
					o.Detail = fmt.Sprintf("the failing condition `%s` is not `current != 0 && current != position` — %s: the parser has no other check of explicit IDs, so a duplicate or out-of-order %%N / @N is renumbered silently (or a valid one rejected)", exprString(is.Cond), strings.Join(wrong[:min(3, len(wrong))], "; "))
				default:
					o.Verdict, o.Detail = OK, "`"+exprString(is.Cond)+"` ≡ current != 0 && current != position on {0..3}²"
				}
				return false
			})
			obs = append(obs, o)
		}
	}
	return obs
}

// ---------------------------------------------------------------------------
// OPS-SHARE

func init() {
	register(&Rule{
		Name:  "OPS-SHARE",
		Doc:   "an operand-holding part of an instruction (operand bundle, switch case, phi incoming, landingpad clause …: a struct of package ir that instructions hold in a slice and that is not itself a value) belongs to one instruction: package asm never puts such an object into a map or into a field of the generator — a cached part would be handed to several instructions, and a write through one instruction's operand slot would change the others",
		Floor: 1,
		NeedS: true,
		Run:   ruleOPSSHARE,
	})
}

func ruleOPSSHARE(c *Ctx) []Obligation {
	// holders: T such that some Inst*/Term* struct of package ir has a field []*T or []T, T a
	// struct of package ir that does not implement value.Value
	pir := c.pkg(pkgIR)
	var valueIface *types.Interface
	if pv := c.pkg(modLLVM + "/ir/value"); pv != nil {
		if tn, ok := pv.Types.Scope().Lookup("Value").(*types.TypeName); ok {
			valueIface, _ = tn.Type().Underlying().(*types.Interface)
		}
	}
	holders := map[*types.Named]string{}
	scope := pir.Types.Scope()
	for _, name := range scope.Names() {
		if !strings.HasPrefix(name, "Inst") && !strings.HasPrefix(name, "Term") {
			continue
		}
		tn, ok := scope.Lookup(name).(*types.TypeName)
		if !ok {
			continue
		}
		st, ok := tn.Type().Underlying().(*types.Struct)
		if !ok {
			continue
		}
		for i := 0; i < st.NumFields(); i++ {
			sl, ok := st.Field(i).Type().Underlying().(*types.Slice)
			if !ok {
				continue
			}
			et := sl.Elem()
			if p, ok := et.(*types.Pointer); ok {
				et = p.Elem()
			}
			n, ok := et.(*types.Named)
			if !ok || n.Obj().Pkg() != pir.Types {
				continue
			}
			if _, isStruct := n.Underlying().(*types.Struct); !isStruct {
				continue
			}
			if valueIface != nil && (types.Implements(n, valueIface) || types.Implements(types.NewPointer(n), valueIface)) {
				continue
			}
			holders[n] = name + "." + st.Field(i).Name()
		}
	}
	var obs []Obligation
	if len(holders) == 0 {
		return []Obligation{{Key: "operand-holding part types", Verdict: UNDECIDED, Detail: "none found in package ir"}}
	}
	var names []string
	for n := range holders {
		names = append(names, n.Obj().Name())
	}
	sort.Strings(names)
	isHolder := func(t types.Type) *types.Named {
		if p, ok := t.(*types.Pointer); ok {
			t = p.Elem()
		}
		if n, ok := t.(*types.Named); ok {
			if _, ok := holders[n]; ok {
				return n
			}
		}
		return nil
	}
	c.SSA()
	n := 0
	var fns []*ssa.Function
	for fn := range c.allFuncs {
		fns = append(fns, fn)
	}
	sort.Slice(fns, func(i, j int) bool { return fns[i].String() < fns[j].String() })
	for _, fn := range fns {
		pkg := fn.Pkg
		if pkg == nil && fn.Parent() != nil {
			pkg = fn.Parent().Pkg
		}
		if pkg == nil || pkg.Pkg.Path() != pkgASM {
			continue
		}
		for _, b := range fn.Blocks {
			for _, in := range b.Instrs {
				switch x := in.(type) {
				case *ssa.MapUpdate:
					if h := isHolder(x.Value.Type()); h != nil {
						n++
						obs = append(obs, Obligation{Key: fmt.Sprintf("%s keeps a *ir.%s in a map #%d", shortFn(fn), h.Obj().Name(), n), Pos: c.pos(x.Pos()), Verdict: VIOL,
							Detail: fmt.Sprintf("an ir.%s (held by %s) is stored in a map: the same object can then be handed to more than one instruction, so a write through one instruction's Operands() slot also changes the others", h.Obj().Name(), holders[h])})
					}
				case *ssa.Store:
					if h := isHolder(x.Val.Type()); h != nil {
						if fa, ok := x.Addr.(*ssa.FieldAddr); ok {
							if on := namedOf(fa.X.Type()); on != nil && on.Obj().Pkg() != nil && on.Obj().Pkg().Path() == pkgASM {
								n++
								obs = append(obs, Obligation{Key: fmt.Sprintf("%s keeps a *ir.%s in a field of %s #%d", shortFn(fn), h.Obj().Name(), on.Obj().Name(), n), Pos: c.pos(x.Pos()), Verdict: VIOL,
									Detail: fmt.Sprintf("an ir.%s (held by %s) is kept in translator state: it can be handed to more than one instruction", h.Obj().Name(), holders[h])})
							}
						}
					}
				}
			}
		}
	}
	obs = append(obs, Obligation{Key: "operand-holding parts are never cached by the translator", Verdict: OK, Detail: fmt.Sprintf("part types: %s; no map update or translator field in package asm holds one", strings.Join(names, ", "))})
	return obs
}

// ---------------------------------------------------------------------------
// SCAF-TYPE

func init() {
	register(&Rule{
		Name:  "SCAF-TYPE",
		Doc:   "the cached type of a global, function, alias or ifunc scaffold (Typ, and whatever is stored through it, such as Typ.AddrSpace) is final when the scaffold is created: package asm stores it only in functions of the step that fills the index of globals, never in a later step — other entities are translated in map order and may take the type of a scaffold (a constant getelementptr copies the address space of its source) before the scaffold's own body has been translated",
		Floor: 2,
		NeedS: true,
		Run:   ruleSCAFTYPE,
	})
}

func ruleSCAFTYPE(c *Ctx) []Obligation {
	var obs []Obligation
	info := c.pkg(pkgASM).TypesInfo
	e := c.effects()
	refs, _, _, _ := c.translatePhases()
	if len(refs) == 0 {
		return []Obligation{{Key: "translate phases", Verdict: UNDECIDED, Detail: "asm.translate not found"}}
	}
	// the step that fills newIndex.globals, and the functions reachable from it / from later steps
	createIdx := -1
	reachOf := make([]map[*ssa.Function]bool, len(refs))
	for i, ref := range refs {
		reachOf[i] = map[*ssa.Function]bool{}
		sf := c.ssaFunc(ref.fn)
		if sf == nil {
			continue
		}
		order, _ := e.reach([]*ssa.Function{sf})
		for _, g := range order {
			reachOf[i][g] = true
			for _, ef := range e.of(g) {
				if ef.Kind == "map" && ef.Target == "asm.newIndex.globals" && c.insideRangeOverIndex(g, ef) {
					createIdx = i
				}
			}
		}
	}
	if createIdx < 0 {
		return []Obligation{{Key: "step that creates the scaffolds of global entities", Verdict: UNDECIDED, Detail: "no step of translate fills newIndex.globals for all definitions"}}
	}
	inCreate := func(sf *ssa.Function) bool {
		for i := 0; i <= createIdx; i++ {
			if reachOf[i][sf] {
				return true
			}
		}
		return false
	}
	inLater := func(sf *ssa.Function) bool {
		for i := createIdx + 1; i < len(refs); i++ {
			if reachOf[i][sf] {
				return true
			}
		}
		return false
	}
	for _, tname := range []string{"Global", "Func", "Alias", "IFunc"} {
		tn := c.lookupType(pkgIR, tname)
		if tn == nil {
			continue
		}
		n := tn.Type().(*types.Named)
		tm := declaredMethodOf(n, "Type")
		if tm == nil {
			continue
		}
		// the scaffolds prefill the cache Typ (RACE-3), so Type() returns it: what must be final at
		// creation is Typ itself and everything stored *through* it (new.Typ.AddrSpace = …)
		dep := map[string]bool{}
		for _, ev := range c.subjectFields(tm, -1) {
			if ev.Field == "Typ" {
				dep[ev.Field] = true
			}
		}
		if len(dep) == 0 {
			continue
		}
		o := Obligation{Key: "ir." + tname + ": the cached type is final when the scaffold is created", Verdict: OK, Tags: []string{"scaf"}}
		nStores := 0
		c.eachFunc(pkgASM, func(p *packages.Package, fd *ast.FuncDecl, fn *types.Func) {
			sf := c.ssaFunc(fn)
			ast.Inspect(fd.Body, func(nd ast.Node) bool {
				var fields []struct {
					name string
					pos  token.Pos
				}
				switch x := nd.(type) {
				case *ast.AssignStmt:
					for _, l := range x.Lhs {
						// innermost selector whose operand is a *ir.T
						for e := unparen(l); ; {
							se, ok := e.(*ast.SelectorExpr)
							if !ok {
								break
							}
							if isIRStructPtr(c, info.TypeOf(se.X)) == n {
								fields = append(fields, struct {
									name string
									pos  token.Pos
								}{se.Sel.Name, x.Pos()})
								break
							}
							e = unparen(se.X)
						}
					}
				case *ast.CompositeLit:
					if namedOf(info.TypeOf(x)) == n {
						for _, el := range x.Elts {
							if kv, ok := el.(*ast.KeyValueExpr); ok {
								if id, ok := kv.Key.(*ast.Ident); ok {
									fields = append(fields, struct {
										name string
										pos  token.Pos
									}{id.Name, kv.Pos()})
								}
							}
						}
					}
				}
				for _, f := range fields {
					if !dep[f.name] {
						continue
					}
					nStores++
					if sf != nil && !inCreate(sf) && inLater(sf) && o.Verdict == OK {
						o.Verdict, o.Pos = VIOL, c.pos(f.pos)
						o.Detail = fmt.Sprintf("%s stores ir.%s.%s, on which (*ir.%s).Type() depends, but runs only in a step after %s, which creates the scaffolds: another entity translated earlier (the order is that of a map) sees the type without it — e.g. a constant getelementptr on a global in addrspace(1) is typed in address space 0 and then fails its own type check, depending on the run", funcKey(fn), tname, f.name, tname, refs[createIdx].fn.Name())
					}
				}
				return true
			})
		})
		if o.Verdict == OK {
			o.Detail = fmt.Sprintf("Type() depends on {%s}; %d store(s) in package asm, all within the scaffold step (%s) or earlier", strings.Join(sortedKeys(dep), ", "), nStores, refs[createIdx].fn.Name())
			if nStores == 0 {
				continue
			}
		}
		obs = append(obs, o)
	}
	return obs
}

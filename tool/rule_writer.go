package main

import (
	"fmt"
	"go/ast"
	"go/token"
	"go/types"
	"sort"
	"strings"

	"golang.org/x/tools/go/packages"
	"golang.org/x/tools/go/ssa"
)

// W — io.WriterTo discipline (C19). All of the module's output must pass the
// counting, error-latching wrapper, and WriteTo must return the wrapper's
// totals.

func init() {
	register(&Rule{
		Name:  "W-1",
		Doc:   "the io.Writer handed to (*Module).WriteTo flows only into the wrapper literal; no other code of package ir writes to an externally supplied io.Writer (fmt.Fprint* / Write / io.WriteString on an io.Writer-typed value) outside the wrapper's methods",
		Floor: 2,
		Run:   ruleW1,
	})
	register(&Rule{
		Name:  "W-2",
		Doc:   "every write a wrapper method performs on the wrapped writer (on SSA, helpers of the wrapper followed): lies behind a dominating test of the latched error, its byte count is added to size and its error is stored in err",
		Floor: 3,
		NeedS: true,
		Run:   ruleW2,
	})
	register(&Rule{
		Name:  "W-3",
		Doc:   "every return of WriteTo returns the wrapper's size and err fields; every output statement of WriteTo is a call on the wrapper",
		Floor: 1,
		Run:   ruleW3,
	})
	register(&Rule{
		Name:  "W-4",
		Doc:   "the wrapper's fields w/size/err are written only inside its own methods (and w in the literal); w is read only there",
		Floor: 3,
		Run:   ruleW4,
	})
	register(&Rule{
		Name:  "W-5",
		Doc:   "(*Module).String obtains its text only from WriteTo on a strings.Builder and returns that builder's String()",
		Floor: 1,
		Run:   ruleW5,
	})
}

type writerInfo struct {
	p        *packages.Package
	writeTo  *ast.FuncDecl
	wParam   *types.Var
	wrapper  *types.Named // fmtWriter
	fW       *types.Var   // field holding the io.Writer
	fSize    *types.Var
	fErr     *types.Var
	methods  []*ast.FuncDecl
	fwVar    *types.Var // local wrapper variable in WriteTo
	problems []string
	// the wrapper-less design: the count and the latched error live in WriteTo's named
	// results and the writing is done by local closures over them and the writer parameter
	closure *closureDesign
}

type closureDesign struct {
	nVar, errVar *types.Var
	lits         map[types.Object]*ast.FuncLit // local variable → the closure it holds
	names        map[*ast.FuncLit]string
	writers      map[*ast.FuncLit]bool // closures that write to the writer parameter
	recorders    map[*ast.FuncLit]bool // closures that assign the count / the error
}

// closureDesignOf recognises the wrapper-less design in WriteTo (see closureDesign).
func (c *Ctx) closureDesignOf(wi *writerInfo) *closureDesign {
	info := wi.p.TypesInfo
	fd := wi.writeTo
	if fd.Type.Results == nil {
		return nil
	}
	cd := &closureDesign{lits: map[types.Object]*ast.FuncLit{}, names: map[*ast.FuncLit]string{}, writers: map[*ast.FuncLit]bool{}, recorders: map[*ast.FuncLit]bool{}}
	for _, fl := range fd.Type.Results.List {
		for _, nm := range fl.Names {
			v, ok := info.Defs[nm].(*types.Var)
			if !ok {
				continue
			}
			if isErrorType(v.Type()) {
				cd.errVar = v
			} else if b, ok := v.Type().Underlying().(*types.Basic); ok && b.Info()&types.IsInteger != 0 {
				cd.nVar = v
			}
		}
	}
	if cd.nVar == nil || cd.errVar == nil {
		return nil
	}
	ast.Inspect(fd.Body, func(n ast.Node) bool {
		as, ok := n.(*ast.AssignStmt)
		if !ok || len(as.Lhs) != 1 || len(as.Rhs) != 1 {
			return true
		}
		fl, ok := as.Rhs[0].(*ast.FuncLit)
		if !ok {
			return true
		}
		if id, ok := as.Lhs[0].(*ast.Ident); ok {
			cd.lits[info.ObjectOf(id)] = fl
			cd.names[fl] = id.Name
		}
		return true
	})
	for _, fl := range cd.lits {
		ast.Inspect(fl.Body, func(n ast.Node) bool {
			switch x := n.(type) {
			case *ast.FuncLit:
				return x == fl
			case *ast.CallExpr:
				if dst := isWriteCall(info, x); dst != nil {
					if id, ok := unparen(dst).(*ast.Ident); ok && info.ObjectOf(id) == wi.wParam {
						cd.writers[fl] = true
					}
				}
			case *ast.AssignStmt:
				for _, l := range x.Lhs {
					if id, ok := unparen(l).(*ast.Ident); ok && (info.ObjectOf(id) == cd.nVar || info.ObjectOf(id) == cd.errVar) {
						cd.recorders[fl] = true
					}
				}
			}
			return true
		})
	}
	if len(cd.writers) == 0 {
		return nil
	}
	return cd
}

func isIOWriter(t types.Type) bool {
	return isNamed(t, "io", "Writer") && !isPtr(t)
}

func isPtr(t types.Type) bool { _, ok := t.(*types.Pointer); return ok }

func isErrorType(t types.Type) bool {
	return types.Identical(t, types.Universe.Lookup("error").Type())
}

// writerAnchors resolves the anchors of the W rules through types: WriteTo is
// the method of ir.Module implementing io.WriterTo; the wrapper is the struct
// type whose literal receives WriteTo's writer parameter.
func (c *Ctx) writerAnchors() *writerInfo {
	if v, ok := c.memo["writerAnchors"]; ok {
		return v.(*writerInfo)
	}
	wi := &writerInfo{p: c.pkg(pkgIR)}
	c.memo["writerAnchors"] = wi
	fn := c.lookupFunc(pkgIR, "Module.WriteTo")
	wi.writeTo = c.funcDecl(fn)
	if wi.writeTo == nil {
		wi.problems = append(wi.problems, "(*ir.Module).WriteTo not found")
		return wi
	}
	sig := fn.Type().(*types.Signature)
	if sig.Params().Len() != 1 || !isIOWriter(sig.Params().At(0).Type()) {
		wi.problems = append(wi.problems, "WriteTo does not take one io.Writer")
		return wi
	}
	wi.wParam = sig.Params().At(0)
	info := wi.p.TypesInfo
	// the wrapper: the struct type of package ir with exactly the fields {io.Writer, integer
	// count, error}; a value of it is built from WriteTo's writer parameter (in WriteTo or in a
	// constructor function WriteTo calls)
	scope := wi.p.Types.Scope()
	for _, name := range scope.Names() {
		tn, ok := scope.Lookup(name).(*types.TypeName)
		if !ok {
			continue
		}
		n, ok := tn.Type().(*types.Named)
		if !ok {
			continue
		}
		st, ok := n.Underlying().(*types.Struct)
		if !ok || st.NumFields() != 3 {
			continue
		}
		var hasW, hasN, hasE bool
		for i := 0; i < 3; i++ {
			t := st.Field(i).Type()
			switch {
			case isIOWriter(t):
				hasW = true
			case isErrorType(t):
				hasE = true
			default:
				if b, ok := t.Underlying().(*types.Basic); ok && b.Info()&types.IsInteger != 0 {
					hasN = true
				}
			}
		}
		if hasW && hasN && hasE {
			if wi.wrapper != nil {
				wi.problems = append(wi.problems, "more than one {io.Writer, count, error} struct in package ir")
				return wi
			}
			wi.wrapper = n
		}
	}
	if wi.wrapper == nil {
		if cd := c.closureDesignOf(wi); cd != nil {
			wi.closure = cd
			return wi
		}
		wi.problems = append(wi.problems, "no {io.Writer, count, error} wrapper struct in package ir, and WriteTo does not keep the count and the error in named results written by local closures")
		return wi
	}
	_ = info
	st, _ := wi.wrapper.Underlying().(*types.Struct)
	if st == nil {
		wi.problems = append(wi.problems, "wrapper is not a struct")
		return wi
	}
	for i := 0; i < st.NumFields(); i++ {
		f := st.Field(i)
		switch {
		case isIOWriter(f.Type()):
			wi.fW = f
		case isErrorType(f.Type()):
			wi.fErr = f
		default:
			if b, ok := f.Type().Underlying().(*types.Basic); ok && b.Info()&types.IsInteger != 0 {
				wi.fSize = f
			}
		}
	}
	if wi.fW == nil || wi.fErr == nil || wi.fSize == nil || st.NumFields() != 3 {
		wi.problems = append(wi.problems, "wrapper does not have exactly the fields {io.Writer, integer count, error}")
		return wi
	}
	c.eachFunc(pkgIR, func(p *packages.Package, fd *ast.FuncDecl, obj *types.Func) {
		if r := obj.Type().(*types.Signature).Recv(); r != nil && namedOf(r.Type()) == wi.wrapper {
			wi.methods = append(wi.methods, fd)
		}
	})
	// WriteTo may delegate to a more general method (return m.WriteToIndent(w, "\t")): the
	// method that receives the writer and builds the wrapper is then the one examined
	for hop := 0; hop < 2; hop++ {
		holds := false
		ast.Inspect(wi.writeTo.Body, func(n ast.Node) bool {
			if e, ok := n.(ast.Expr); ok && namedOf(info.TypeOf(e)) == wi.wrapper {
				holds = true
			}
			return true
		})
		if holds || len(wi.writeTo.Body.List) != 1 {
			break
		}
		r, ok := wi.writeTo.Body.List[0].(*ast.ReturnStmt)
		if !ok || len(r.Results) != 1 {
			break
		}
		call, ok := unparen(r.Results[0]).(*ast.CallExpr)
		if !ok {
			break
		}
		callee := calleeOf(info, call)
		cfd := c.funcDecl(callee)
		if cfd == nil || callee.Pkg() == nil || callee.Pkg().Path() != pkgIR {
			break
		}
		csig := callee.Type().(*types.Signature)
		var wp *types.Var
		for i := 0; i < csig.Params().Len() && i < len(call.Args); i++ {
			if id, ok := unparen(call.Args[i]).(*ast.Ident); ok && info.ObjectOf(id) == wi.wParam && isIOWriter(csig.Params().At(i).Type()) {
				wp = csig.Params().At(i)
				// the declared parameter object (Defs) rather than the signature's
				k := 0
				for _, f := range cfd.Type.Params.List {
					for _, nm := range f.Names {
						if k == i {
							if v, ok := info.Defs[nm].(*types.Var); ok {
								wp = v
							}
						}
						k++
					}
				}
			}
		}
		if wp == nil {
			break
		}
		wi.writeTo, wi.wParam = cfd, wp
	}
	// local variable holding the wrapper in WriteTo
	ast.Inspect(wi.writeTo.Body, func(n ast.Node) bool {
		as, ok := n.(*ast.AssignStmt)
		if !ok || len(as.Lhs) != 1 || len(as.Rhs) != 1 {
			return true
		}
		if namedOf(info.TypeOf(as.Rhs[0])) == wi.wrapper {
			if id, ok := as.Lhs[0].(*ast.Ident); ok {
				if v, ok := info.ObjectOf(id).(*types.Var); ok && wi.fwVar == nil {
					wi.fwVar = v
				}
			}
		}
		return true
	})
	if wi.fwVar == nil {
		wi.problems = append(wi.problems, "WriteTo does not keep the wrapper in a local variable")
	}
	return wi
}

func (wi *writerInfo) undecided(rule string) []Obligation {
	return []Obligation{{Rule: rule, Key: "anchors", Verdict: UNDECIDED, Detail: strings.Join(wi.problems, "; ")}}
}

// isWriteCall reports whether call writes to an io.Writer-typed operand and returns that operand.
func isWriteCall(info *types.Info, call *ast.CallExpr) ast.Expr {
	fn := calleeOf(info, call)
	if fn != nil && fn.Pkg() != nil {
		switch {
		case fn.Pkg().Path() == "fmt" && strings.HasPrefix(fn.Name(), "Fprint") && len(call.Args) > 0:
			return call.Args[0]
		case fn.Pkg().Path() == "io" && (fn.Name() == "WriteString" || fn.Name() == "Copy" || fn.Name() == "CopyN") && len(call.Args) > 0:
			return call.Args[0]
		}
	}
	if se, ok := unparen(call.Fun).(*ast.SelectorExpr); ok {
		switch se.Sel.Name {
		case "Write", "WriteString", "WriteByte", "WriteRune", "ReadFrom":
			if _, ok := info.Selections[se]; ok {
				return se.X
			}
		}
	}
	return nil
}

func ruleW1(c *Ctx) []Obligation {
	wi := c.writerAnchors()
	if len(wi.problems) > 0 {
		return wi.undecided("W-1")
	}
	if wi.closure != nil {
		return c.writerClosureRule(wi, "W-1")
	}
	var obs []Obligation
	info := wi.p.TypesInfo
	// (a) uses of the parameter in WriteTo
	uses, bad := 0, []string{}
	var stack []ast.Node
	ast.Inspect(wi.writeTo.Body, func(n ast.Node) bool {
		if n == nil {
			stack = stack[:len(stack)-1]
			return true
		}
		stack = append(stack, n)
		id, ok := n.(*ast.Ident)
		if !ok || info.Uses[id] != wi.wParam {
			return true
		}
		uses++
		okUse := false
		for i := len(stack) - 2; i >= 0 && i >= len(stack)-3; i-- {
			if cl, ok := stack[i].(*ast.CompositeLit); ok && namedOf(info.Types[cl].Type) == wi.wrapper {
				okUse = true
			}
			// newWrapper(w): a constructor of package ir whose parameter only enters the wrapper literal
			if call, ok := stack[i].(*ast.CallExpr); ok && c.isWrapperCtor(wi, calleeOf(info, call)) {
				okUse = true
			}
		}
		if !okUse {
			bad = append(bad, c.pos(id.Pos()))
		}
		return true
	})
	o := Obligation{Key: "ir.(*Module).WriteTo writer parameter", Pos: c.pos(wi.writeTo.Pos()), Verdict: OK,
		Detail: fmt.Sprintf("%d use(s), all inside the %s literal", uses, wi.wrapper.Obj().Name())}
	if len(bad) > 0 || uses == 0 {
		o.Verdict = VIOL
		o.Detail = fmt.Sprintf("writer parameter used outside the %s literal at %v: output can bypass the byte counter and error latch", wi.wrapper.Obj().Name(), bad)
	}
	obs = append(obs, o)
	// (b) any write to an io.Writer-typed value anywhere in the ir packages
	n := 0
	for _, path := range []string{pkgIR, pkgCONS, pkgMD, pkgTYP, pkgVAL, pkgENUM} {
		c.eachFunc(path, func(p *packages.Package, fd *ast.FuncDecl, obj *types.Func) {
			inWrapper := false
			if r := obj.Type().(*types.Signature).Recv(); r != nil && namedOf(r.Type()) == wi.wrapper {
				inWrapper = true
			}
			idx := 0
			ast.Inspect(fd.Body, func(nd ast.Node) bool {
				call, ok := nd.(*ast.CallExpr)
				if !ok {
					return true
				}
				dst := isWriteCall(p.TypesInfo, call)
				if dst == nil {
					return true
				}
				t := p.TypesInfo.TypeOf(dst)
				if t == nil || !types.IsInterface(t) {
					return true // a concrete *strings.Builder / *bytes.Buffer owned by the printer
				}
				n++
				idx++
				o := Obligation{Key: fmt.Sprintf("write to interface-typed writer in %s #%d", funcKey(obj), idx), Pos: c.pos(call.Pos()), Verdict: OK}
				if inWrapper {
					if se, ok := unparen(dst).(*ast.SelectorExpr); ok && p.TypesInfo.ObjectOf(se.Sel) == wi.fW {
						o.Detail = "wrapper method writes to its own writer field"
					} else {
						o.Verdict = VIOL
						o.Detail = "wrapper method writes to something other than its writer field: " + exprString(dst)
					}
				} else {
					o.Verdict = VIOL
					o.Detail = fmt.Sprintf("%s writes to an %s directly (%s); output written this way is neither counted nor stopped after the first error", funcKey(obj), typeKey(t), exprString(call.Fun))
				}
				obs = append(obs, o)
				return true
			})
		})
	}
	return obs
}

func ruleW2(c *Ctx) []Obligation {
	wi := c.writerAnchors()
	if len(wi.problems) > 0 {
		return wi.undecided("W-2")
	}
	if wi.closure != nil {
		return c.writerClosureRule(wi, "W-2")
	}
	info := wi.p.TypesInfo
	var obs []Obligation
	st := wi.wrapper.Underlying().(*types.Struct)
	fieldIdx := func(f *types.Var) int {
		for i := 0; i < st.NumFields(); i++ {
			if st.Field(i) == f {
				return i
			}
		}
		return -1
	}
	iW, iSize, iErr := fieldIdx(wi.fW), fieldIdx(wi.fSize), fieldIdx(wi.fErr)
	// loadOf(v, i): v is a load of field i of a wrapper value
	isFieldAddr := func(v ssa.Value, i int) bool {
		fa, ok := v.(*ssa.FieldAddr)
		if !ok || fa.Field != i {
			return false
		}
		return namedOf(fa.X.Type()) == wi.wrapper
	}
	loadOf := func(v ssa.Value, i int) bool {
		u, ok := v.(*ssa.UnOp)
		return ok && u.Op == token.MUL && isFieldAddr(u.X, i)
	}
	isNilConst := func(v ssa.Value) bool {
		k, ok := v.(*ssa.Const)
		return ok && k.IsNil()
	}
	// latchKind: 1 when v is `fw.err != nil`, 2 when it is `fw.err == nil` (0 otherwise), directly or
	// as the result of a wrapper method all of whose returns are one and the same of the two
	var latchKind func(v ssa.Value, depth int) int
	latchKind = func(v ssa.Value, depth int) int {
		switch x := v.(type) {
		case *ssa.BinOp:
			if loadOf(x.X, iErr) && isNilConst(x.Y) || loadOf(x.Y, iErr) && isNilConst(x.X) {
				switch x.Op {
				case token.NEQ:
					return 1
				case token.EQL:
					return 2
				}
			}
			return 0
		case *ssa.UnOp:
			if x.Op == token.NOT {
				switch latchKind(x.X, depth) {
				case 1:
					return 2
				case 2:
					return 1
				}
			}
			return 0
		case *ssa.Call:
			callee := x.Call.StaticCallee()
			if callee == nil || depth > 1 || callee.Signature.Recv() == nil || namedOf(callee.Signature.Recv().Type()) != wi.wrapper {
				return 0
			}
			kind, n := -1, 0
			for _, b := range callee.Blocks {
				if len(b.Instrs) == 0 {
					continue
				}
				if r, ok := b.Instrs[len(b.Instrs)-1].(*ssa.Return); ok {
					n++
					k := 0
					if len(r.Results) == 1 {
						k = latchKind(r.Results[0], depth+1)
					}
					if kind == -1 {
						kind = k
					} else if kind != k {
						kind = 0
					}
				}
			}
			if n == 0 || kind < 0 {
				return 0
			}
			return kind
		}
		return 0
	}
	// flow of a write's result into the bookkeeping stores
	// start: the block from which the bookkeeping has to be reached on every returning path (nil:
	// no such requirement); it moves to a callee's entry when the value is followed into it
	var reaches func(v ssa.Value, want func(ssa.Instruction, ssa.Value) bool, seen map[ssa.Value]bool, start *ssa.BasicBlock) bool
	reaches = func(v ssa.Value, want func(ssa.Instruction, ssa.Value) bool, seen map[ssa.Value]bool, start *ssa.BasicBlock) bool {
		if seen[v] || v.Referrers() == nil {
			return false
		}
		seen[v] = true
		for _, r := range *v.Referrers() {
			if want(r, v) && (start == nil || onEveryReturningPath(start, r.Block())) {
				return true
			}
			switch r := r.(type) {
			case *ssa.Convert:
				if reaches(r, want, seen, start) {
					return true
				}
			case *ssa.ChangeType:
				if reaches(r, want, seen, start) {
					return true
				}
			case *ssa.Phi:
				if reaches(r, want, seen, start) {
					return true
				}
			case *ssa.MakeInterface:
				if reaches(r, want, seen, start) {
					return true
				}
			case *ssa.BinOp:
				if reaches(r, want, seen, start) {
					return true
				}
			case *ssa.Store:
				// spilled into a local cell (named results): follow the loads
				if a, ok := r.Addr.(*ssa.Alloc); ok && r.Val == v {
					for _, ar := range *a.Referrers() {
						if ld, ok := ar.(*ssa.UnOp); ok && ld.Op == token.MUL {
							if reaches(ld, want, seen, start) {
								return true
							}
						}
					}
				}
			case *ssa.Call:
				callee := r.Call.StaticCallee()
				if callee != nil && callee.Pkg != nil && callee.Pkg.Pkg.Path() == pkgIR && len(callee.Params) == len(r.Call.Args) && len(callee.Blocks) > 0 {
					next := start
					if start != nil {
						if !onEveryReturningPath(start, r.Block()) {
							continue
						}
						next = callee.Blocks[0]
					}
					for i, a := range r.Call.Args {
						if a == v && reaches(callee.Params[i], want, seen, next) {
							return true
						}
					}
				}
			}
		}
		return false
	}
	sizeStore := func(in ssa.Instruction, v ssa.Value) bool {
		s, ok := in.(*ssa.Store)
		if !ok || !isFieldAddr(s.Addr, iSize) || s.Val != v {
			return false
		}
		b, ok := v.(*ssa.BinOp)
		return ok && b.Op == token.ADD && (loadOf(b.X, iSize) || loadOf(b.Y, iSize))
	}
	errStore := func(in ssa.Instruction, v ssa.Value) bool {
		s, ok := in.(*ssa.Store)
		return ok && isFieldAddr(s.Addr, iErr) && s.Val == v
	}
	for _, fd := range wi.methods {
		fn := info.Defs[fd.Name].(*types.Func)
		sf := c.ssaFunc(fn)
		if sf == nil {
			continue
		}
		// write sites: calls that receive the writer field
		var sites []ssa.CallInstruction
		for _, b := range sf.Blocks {
			for _, in := range b.Instrs {
				ci, ok := in.(ssa.CallInstruction)
				if !ok {
					continue
				}
				cc := ci.Common()
				uses := cc.IsInvoke() && loadOf(cc.Value, iW)
				for _, a := range cc.Args {
					x := a
					if mi, ok := x.(*ssa.MakeInterface); ok {
						x = mi.X
					}
					if ct, ok := x.(*ssa.ChangeInterface); ok {
						x = ct.X
					}
					if loadOf(x, iW) {
						uses = true
					}
				}
				if uses {
					sites = append(sites, ci)
				}
			}
		}
		if len(sites) == 0 {
			continue
		}
		o := Obligation{Key: "wrapper method " + funcKey(fn), Pos: c.pos(fd.Pos()), Verdict: OK}
		fail := func(pos token.Pos, s string) {
			if o.Verdict == OK {
				o.Verdict, o.Detail = VIOL, s
				if pos.IsValid() {
					o.Pos = c.pos(pos)
				}
			}
		}
		for _, site := range sites {
			// (1) latched: a dominating `if fw.err != nil { return }` with the write on its false side
			latched := false
			sb := site.Block()
			for _, b := range sf.Blocks {
				if len(b.Instrs) == 0 || len(b.Succs) != 2 {
					continue
				}
				iff, ok := b.Instrs[len(b.Instrs)-1].(*ssa.If)
				if !ok {
					continue
				}
				// `if fw.err != nil { return }` with the write on the false side, or
				// `if fw.err == nil { write }` with the write on the true side
				switch latchKind(iff.Cond, 0) {
				case 1:
					if b.Succs[1].Dominates(sb) && !b.Succs[0].Dominates(sb) && b.Succs[1] != b.Succs[0] {
						latched = true
					}
				case 2:
					if b.Succs[0].Dominates(sb) && !b.Succs[1].Dominates(sb) && b.Succs[1] != b.Succs[0] {
						latched = true
					}
				}
			}
			if !latched {
				fail(site.Pos(), "a write to the wrapped writer is not guarded by the latched error (no dominating `if fw.err != nil { return … }` with the write on its false side): after a failed write this method still writes")
			}
			// (2) the write is fmt.Fprint*(fw.w, …) / a Write-like call whose (n, err) are both recorded
			val := site.Value()
			if val == nil {
				fail(site.Pos(), "the write's results are discarded (go/defer)")
				continue
			}
			var nV, errV ssa.Value
			for _, r := range *val.Referrers() {
				if ex, ok := r.(*ssa.Extract); ok {
					switch ex.Index {
					case 0:
						nV = ex
					case 1:
						errV = ex
					}
				}
			}
			if nV == nil || !reaches(nV, sizeStore, map[ssa.Value]bool{}, nil) {
				fail(site.Pos(), "the byte count of the write is not added to the size field: WriteTo under-reports n")
			} else if !reaches(nV, sizeStore, map[ssa.Value]bool{}, sb) {
				fail(site.Pos(), "the byte count of the write is added to the size field only on some paths (the update is skipped when the write fails): a write that fails part-way has delivered bytes that WriteTo does not report")
			}
			if errV == nil || !reaches(errV, errStore, map[ssa.Value]bool{}, nil) {
				fail(site.Pos(), "the error of the write is not stored in the err field: the first write error is lost and later writes continue")
			}
		}
		if o.Verdict == OK {
			o.Detail = fmt.Sprintf("%d write(s) to the wrapped writer, each behind the error latch, byte count added to size, error stored", len(sites))
		}
		obs = append(obs, o)
	}
	return obs
}

// onEveryReturningPath: every path from block `from` to a return of its function passes through
// block `through` (post-dominance restricted to returning paths; both blocks of one function).
func onEveryReturningPath(from, through *ssa.BasicBlock) bool {
	if from == through {
		return true
	}
	if from.Parent() != through.Parent() {
		return false
	}
	seen := map[*ssa.BasicBlock]bool{through: true}
	var escapes func(b *ssa.BasicBlock) bool
	escapes = func(b *ssa.BasicBlock) bool {
		if seen[b] {
			return false
		}
		seen[b] = true
		if len(b.Instrs) > 0 {
			if _, ok := b.Instrs[len(b.Instrs)-1].(*ssa.Return); ok {
				return true
			}
		}
		for _, s := range b.Succs {
			if escapes(s) {
				return true
			}
		}
		return false
	}
	return !escapes(from)
}

// usesOnly reports whether e is obj, possibly wrapped in conversions.
func usesOnly(info *types.Info, e ast.Expr, obj types.Object) bool {
	e = unparen(e)
	if call, ok := e.(*ast.CallExpr); ok && len(call.Args) == 1 {
		if tv, ok := info.Types[call.Fun]; ok && tv.IsType() {
			return usesOnly(info, call.Args[0], obj)
		}
	}
	id, ok := e.(*ast.Ident)
	return ok && info.ObjectOf(id) == obj
}

func ruleW3(c *Ctx) []Obligation {
	wi := c.writerAnchors()
	if len(wi.problems) > 0 {
		return wi.undecided("W-3")
	}
	if wi.closure != nil {
		return c.writerClosureRule(wi, "W-3")
	}
	info := wi.p.TypesInfo
	var obs []Obligation
	isFwField := func(e ast.Expr, f *types.Var) bool {
		se, ok := unparen(e).(*ast.SelectorExpr)
		if !ok || info.ObjectOf(se.Sel) != f {
			return false
		}
		id, ok := unparen(se.X).(*ast.Ident)
		return ok && info.ObjectOf(id) == wi.fwVar
	}
	nret := 0
	o := Obligation{Key: "ir.(*Module).WriteTo returns", Pos: c.pos(wi.writeTo.Pos()), Verdict: OK}
	ast.Inspect(wi.writeTo.Body, func(n ast.Node) bool {
		if _, ok := n.(*ast.FuncLit); ok {
			return false
		}
		r, ok := n.(*ast.ReturnStmt)
		if !ok {
			return true
		}
		nret++
		// `return fw.result()` where result() is `return fw.size, fw.err`
		if len(r.Results) == 1 {
			if call, ok := unparen(r.Results[0]).(*ast.CallExpr); ok && len(call.Args) == 0 {
				if se, ok := unparen(call.Fun).(*ast.SelectorExpr); ok {
					if id, ok := unparen(se.X).(*ast.Ident); ok && info.ObjectOf(id) == wi.fwVar && c.returnsSizeErr(wi, calleeOf(info, call)) {
						return true
					}
				}
			}
		}
		// a return before the wrapper exists (argument validation): nothing has been written, so
		// the count is the constant 0 and the error is what is being reported
		if len(r.Results) == 2 && r.Pos() < wi.fwVar.Pos() {
			if tv := info.Types[r.Results[0]]; tv.Value != nil && tv.Value.String() == "0" && !(exprString(r.Results[1]) == "nil") {
				return true
			}
		}
		if len(r.Results) != 2 || !isFwField(r.Results[0], wi.fSize) || !isFwField(r.Results[1], wi.fErr) {
			if o.Verdict == OK {
				o.Verdict = VIOL
				o.Pos = c.pos(r.Pos())
				res := []string{}
				for _, x := range r.Results {
					res = append(res, exprString(x))
				}
				o.Detail = fmt.Sprintf("return %s: WriteTo must report the wrapper's byte count and first error (%s.%s, %s.%s)", strings.Join(res, ", "), wi.fwVar.Name(), wi.fSize.Name(), wi.fwVar.Name(), wi.fErr.Name())
			}
		}
		return true
	})
	if nret == 0 {
		o.Verdict, o.Detail = VIOL, "WriteTo has no return statement"
	} else if o.Verdict == OK {
		o.Detail = fmt.Sprintf("%d return(s), each `return %s.%s, %s.%s`", nret, wi.fwVar.Name(), wi.fSize.Name(), wi.fwVar.Name(), wi.fErr.Name())
	}
	obs = append(obs, o)
	// the size field is only read (never assigned) in WriteTo — covered by W-4.
	return obs
}

func ruleW4(c *Ctx) []Obligation {
	wi := c.writerAnchors()
	if len(wi.problems) > 0 {
		return wi.undecided("W-4")
	}
	if wi.closure != nil {
		return c.writerClosureRule(wi, "W-4")
	}
	var obs []Obligation
	type acc struct{ writes, reads []string }
	accs := map[*types.Var]*acc{wi.fW: {}, wi.fSize: {}, wi.fErr: {}}
	p := wi.p
	info := p.TypesInfo
	c.eachFunc(pkgIR, func(_ *packages.Package, fd *ast.FuncDecl, obj *types.Func) {
		inWrapper := false
		if r := obj.Type().(*types.Signature).Recv(); r != nil && namedOf(r.Type()) == wi.wrapper {
			inWrapper = true
		}
		if inWrapper {
			return
		}
		written := map[ast.Expr]bool{}
		ast.Inspect(fd.Body, func(n ast.Node) bool {
			switch n := n.(type) {
			case *ast.AssignStmt:
				for _, l := range n.Lhs {
					written[unparen(l)] = true
				}
			case *ast.IncDecStmt:
				written[unparen(n.X)] = true
			case *ast.UnaryExpr:
				if n.Op == token.AND {
					written[unparen(n.X)] = true // address taken: treat as a write
				}
			}
			return true
		})
		ast.Inspect(fd.Body, func(n ast.Node) bool {
			se, ok := n.(*ast.SelectorExpr)
			if !ok {
				return true
			}
			f, ok := info.ObjectOf(se.Sel).(*types.Var)
			if !ok || accs[f] == nil {
				return true
			}
			where := fmt.Sprintf("%s (%s)", funcKey(obj), c.pos(se.Pos()))
			if written[se] {
				accs[f].writes = append(accs[f].writes, where)
			} else {
				accs[f].reads = append(accs[f].reads, where)
			}
			return true
		})
		// composite literals of the wrapper outside WriteTo, or with keys other than w
		ast.Inspect(fd.Body, func(n ast.Node) bool {
			cl, ok := n.(*ast.CompositeLit)
			if !ok || namedOf(info.Types[cl].Type) != wi.wrapper {
				return true
			}
			for _, el := range cl.Elts {
				kv, ok := el.(*ast.KeyValueExpr)
				if !ok {
					accs[wi.fSize].writes = append(accs[wi.fSize].writes, fmt.Sprintf("positional wrapper literal in %s (%s)", funcKey(obj), c.pos(cl.Pos())))
					continue
				}
				if id, ok := kv.Key.(*ast.Ident); ok {
					if f, _ := info.ObjectOf(id).(*types.Var); f != nil && f != wi.fW && accs[f] != nil {
						accs[f].writes = append(accs[f].writes, fmt.Sprintf("wrapper literal presets %s in %s (%s)", f.Name(), funcKey(obj), c.pos(kv.Pos())))
					}
				}
			}
			return true
		})
	})
	for _, f := range []*types.Var{wi.fW, wi.fSize, wi.fErr} {
		a := accs[f]
		o := Obligation{Key: fmt.Sprintf("%s.%s accesses outside its methods", wi.wrapper.Obj().Name(), f.Name()), Pos: c.pos(f.Pos()), Verdict: OK,
			Detail: fmt.Sprintf("%d write(s), %d read(s) outside the wrapper's methods", len(a.writes), len(a.reads))}
		if len(a.writes) > 0 {
			o.Verdict = VIOL
			o.Detail = "written outside the wrapper's methods: " + strings.Join(a.writes, "; ")
		} else if f == wi.fW && len(a.reads) > 0 {
			o.Verdict = VIOL
			o.Detail = "the underlying writer is reached outside the wrapper's methods: " + strings.Join(a.reads, "; ")
		}
		obs = append(obs, o)
	}
	return obs
}

func ruleW5(c *Ctx) []Obligation {
	wi := c.writerAnchors()
	if len(wi.problems) > 0 {
		return wi.undecided("W-5")
	}
	fn := c.lookupFunc(pkgIR, "Module.String")
	fd := c.funcDecl(fn)
	o := Obligation{Key: "ir.(*Module).String", Verdict: OK}
	if fd == nil {
		o.Verdict, o.Detail = UNDECIDED, "(*Module).String not found"
		return []Obligation{o}
	}
	o.Pos = c.pos(fd.Pos())
	info := wi.p.TypesInfo
	writeToFn := info.Defs[wi.writeTo.Name]
	var bufObj types.Object
	nWriteTo := 0
	ast.Inspect(fd.Body, func(n ast.Node) bool {
		call, ok := n.(*ast.CallExpr)
		if !ok {
			return true
		}
		// WriteTo itself, or (when WriteTo delegates) the method that does the writing
		if cal := calleeOf(info, call); cal != nil && (cal == writeToFn || cal == c.lookupFunc(pkgIR, "Module.WriteTo")) && len(call.Args) >= 1 {
			nWriteTo++
			if id, ok := unparen(call.Args[0]).(*ast.Ident); ok && isNamed(info.TypeOf(id), "strings", "Builder") {
				bufObj = info.ObjectOf(id)
			}
		}
		return true
	})
	if nWriteTo != 1 || bufObj == nil {
		o.Verdict, o.Detail = VIOL, "String does not call WriteTo exactly once on a *strings.Builder"
		return []Obligation{o}
	}
	okRet := false
	nRet := 0
	ast.Inspect(fd.Body, func(n ast.Node) bool {
		r, ok := n.(*ast.ReturnStmt)
		if !ok {
			return true
		}
		nRet++
		if len(r.Results) == 1 {
			if call, ok := r.Results[0].(*ast.CallExpr); ok && len(call.Args) == 0 {
				if se, ok := call.Fun.(*ast.SelectorExpr); ok && se.Sel.Name == "String" {
					if id, ok := se.X.(*ast.Ident); ok && info.ObjectOf(id) == bufObj {
						okRet = true
					}
				}
			}
		}
		return true
	})
	if !okRet || nRet != 1 {
		o.Verdict, o.Detail = VIOL, "String does not return exactly the builder that WriteTo filled"
	} else {
		o.Detail = "WriteTo(buf); return buf.String()"
	}
	return []Obligation{o}
}

// isWrapperCtor: fn is a function of package ir returning the wrapper whose
// io.Writer parameter is used only as an element of a wrapper literal.
func (c *Ctx) isWrapperCtor(wi *writerInfo, fn *types.Func) bool {
	fd := c.funcDecl(fn)
	if fn == nil || fd == nil || fn.Pkg() == nil || fn.Pkg().Path() != pkgIR {
		return false
	}
	sig := fn.Type().(*types.Signature)
	if sig.Recv() != nil || sig.Results().Len() != 1 || namedOf(sig.Results().At(0).Type()) != wi.wrapper {
		return false
	}
	info := wi.p.TypesInfo
	ok := true
	var stack []ast.Node
	ast.Inspect(fd.Body, func(n ast.Node) bool {
		if n == nil {
			stack = stack[:len(stack)-1]
			return true
		}
		stack = append(stack, n)
		id, isID := n.(*ast.Ident)
		if !isID {
			return true
		}
		v, isVar := info.Uses[id].(*types.Var)
		if !isVar || !isIOWriter(v.Type()) {
			return true
		}
		inLit := false
		for i := len(stack) - 2; i >= 0 && i >= len(stack)-3; i-- {
			if cl, isCL := stack[i].(*ast.CompositeLit); isCL && namedOf(info.Types[cl].Type) == wi.wrapper {
				inLit = true
			}
		}
		if !inLit {
			ok = false
		}
		return true
	})
	return ok
}

// returnsSizeErr: m is a method of the wrapper whose body is `return recv.size, recv.err`.
func (c *Ctx) returnsSizeErr(wi *writerInfo, m *types.Func) bool {
	fd := c.funcDecl(m)
	if m == nil || fd == nil || fd.Recv == nil || len(fd.Body.List) != 1 {
		return false
	}
	if r := m.Type().(*types.Signature).Recv(); r == nil || namedOf(r.Type()) != wi.wrapper {
		return false
	}
	r, ok := fd.Body.List[0].(*ast.ReturnStmt)
	if !ok || len(r.Results) != 2 {
		return false
	}
	info := wi.p.TypesInfo
	isF := func(e ast.Expr, f *types.Var) bool {
		se, ok := unparen(e).(*ast.SelectorExpr)
		return ok && info.ObjectOf(se.Sel) == f
	}
	return isF(r.Results[0], wi.fSize) && isF(r.Results[1], wi.fErr)
}

// writerClosureRule: W-1 … W-4 for the wrapper-less design (closureDesign). Same clauses,
// stated over the named results and the local closures instead of the wrapper's fields and
// methods.
func (c *Ctx) writerClosureRule(wi *writerInfo, rule string) []Obligation {
	cd := wi.closure
	info := wi.p.TypesInfo
	fd := wi.writeTo
	pm := buildParents(fd.Body)
	enclosingLit := func(n ast.Node) *ast.FuncLit {
		for q := pm[n]; q != nil; q = pm[q] {
			if fl, ok := q.(*ast.FuncLit); ok {
				return fl
			}
		}
		return nil
	}
	var obs []Obligation
	switch rule {
	case "W-1":
		uses, bad := 0, []string{}
		ast.Inspect(fd.Body, func(n ast.Node) bool {
			id, ok := n.(*ast.Ident)
			if !ok || info.Uses[id] != wi.wParam {
				return true
			}
			uses++
			okUse := false
			if call, ok := pm[id].(*ast.CallExpr); ok {
				if dst := isWriteCall(info, call); dst != nil && unparen(dst) == ast.Expr(id) && enclosingLit(call) != nil {
					okUse = true
				}
			}
			if se, ok := pm[id].(*ast.SelectorExpr); ok && se.X == ast.Expr(id) {
				if call, ok := pm[se].(*ast.CallExpr); ok && isWriteCall(info, call) != nil && enclosingLit(call) != nil {
					okUse = true
				}
			}
			if !okUse {
				bad = append(bad, c.pos(id.Pos()))
			}
			return true
		})
		o := Obligation{Key: "ir.(*Module).WriteTo writer parameter", Pos: c.pos(fd.Pos()), Verdict: OK, Detail: fmt.Sprintf("%d use(s), all as the destination of a write inside a local closure", uses)}
		if len(bad) > 0 || uses == 0 {
			o.Verdict = VIOL
			o.Detail = fmt.Sprintf("writer parameter used other than as the destination of a write inside a writing closure at %v: output can bypass the byte count and the error latch", bad)
		}
		obs = append(obs, o)
		for _, path := range []string{pkgIR, pkgCONS, pkgMD, pkgTYP, pkgVAL, pkgENUM} {
			c.eachFunc(path, func(p *packages.Package, ofd *ast.FuncDecl, obj *types.Func) {
				idx := 0
				ast.Inspect(ofd.Body, func(nd ast.Node) bool {
					call, ok := nd.(*ast.CallExpr)
					if !ok {
						return true
					}
					dst := isWriteCall(p.TypesInfo, call)
					if dst == nil {
						return true
					}
					if t := p.TypesInfo.TypeOf(dst); t == nil || !types.IsInterface(t) {
						return true
					}
					idx++
					o := Obligation{Key: fmt.Sprintf("write to interface-typed writer in %s #%d", funcKey(obj), idx), Pos: c.pos(call.Pos()), Verdict: OK, Detail: "a writing closure of WriteTo writes to the writer parameter"}
					id, isID := unparen(dst).(*ast.Ident)
					if ofd != fd || !isID || p.TypesInfo.ObjectOf(id) != wi.wParam {
						o.Verdict = VIOL
						o.Detail = fmt.Sprintf("%s writes to an io.Writer directly (%s); output written this way is neither counted nor stopped after the first error", funcKey(obj), exprString(call.Fun))
					}
					obs = append(obs, o)
					return true
				})
			})
		}
	case "W-2":
		// recorder: func(k int, e error) { n += T(k); err = e } — both unconditional
		isRecorder := func(fl *ast.FuncLit) bool {
			if fl == nil || fl.Type.Params == nil {
				return false
			}
			var ps []types.Object
			for _, f := range fl.Type.Params.List {
				for _, nm := range f.Names {
					ps = append(ps, info.Defs[nm])
				}
			}
			if len(ps) != 2 {
				return false
			}
			addN, setE := false, false
			for _, st := range fl.Body.List {
				as, ok := st.(*ast.AssignStmt)
				if !ok || len(as.Lhs) != 1 || len(as.Rhs) != 1 {
					continue
				}
				id, ok := unparen(as.Lhs[0]).(*ast.Ident)
				if !ok {
					continue
				}
				switch {
				case info.ObjectOf(id) == cd.nVar && as.Tok == token.ADD_ASSIGN && usesOnly(info, as.Rhs[0], ps[0]):
					addN = true
				case info.ObjectOf(id) == cd.errVar && as.Tok == token.ASSIGN && usesOnly(info, as.Rhs[0], ps[1]):
					setE = true
				}
			}
			return addN && setE
		}
		n := 0
		for _, fl := range sortedLits(cd) {
			if !cd.writers[fl] {
				continue
			}
			ast.Inspect(fl.Body, func(nd ast.Node) bool {
				call, ok := nd.(*ast.CallExpr)
				if !ok {
					return true
				}
				dst := isWriteCall(info, call)
				if dst == nil {
					return true
				}
				if id, ok := unparen(dst).(*ast.Ident); !ok || info.ObjectOf(id) != wi.wParam {
					return true
				}
				n++
				o := Obligation{Key: fmt.Sprintf("writing closure %s #%d", cd.names[fl], n), Pos: c.pos(call.Pos()), Verdict: OK}
				// (1) behind the latch: an enclosing `if err == nil`, or an earlier top-level `if err != nil { return }`
				latched := false
				for q := pm[call]; q != nil && q != ast.Node(fl); q = pm[q] {
					if is, ok := q.(*ast.IfStmt); ok && call.Pos() >= is.Body.Pos() && call.End() <= is.Body.End() {
						if be, ok := unparen(is.Cond).(*ast.BinaryExpr); ok && be.Op == token.EQL && exprString(be.Y) == "nil" {
							if id, ok := unparen(be.X).(*ast.Ident); ok && info.ObjectOf(id) == cd.errVar {
								latched = true
							}
						}
					}
				}
				for _, st := range fl.Body.List {
					if st.Pos() > call.Pos() {
						break
					}
					if is, ok := st.(*ast.IfStmt); ok && is.Else == nil && len(is.Body.List) == 1 {
						if _, isRet := is.Body.List[0].(*ast.ReturnStmt); isRet {
							if be, ok := unparen(is.Cond).(*ast.BinaryExpr); ok && be.Op == token.NEQ && exprString(be.Y) == "nil" {
								if id, ok := unparen(be.X).(*ast.Ident); ok && info.ObjectOf(id) == cd.errVar {
									latched = true
								}
							}
						}
					}
				}
				// (2) both results recorded
				recorded := false
				switch par := pm[call].(type) {
				case *ast.CallExpr: // written(fmt.Fprintf(w, …))
					if len(par.Args) == 1 {
						if id, ok := unparen(par.Fun).(*ast.Ident); ok && isRecorder(cd.lits[info.ObjectOf(id)]) {
							recorded = true
						}
					}
				case *ast.AssignStmt: // k, e := fmt.Fprintf(w, …); n += int64(k); err = e
					if len(par.Lhs) == 2 {
						k, _ := par.Lhs[0].(*ast.Ident)
						e, _ := par.Lhs[1].(*ast.Ident)
						if blk, ok := pm[par].(*ast.BlockStmt); ok && k != nil && e != nil {
							addN, setE := false, false
							for _, st := range blk.List {
								as, ok := st.(*ast.AssignStmt)
								if !ok || st.Pos() < par.Pos() || len(as.Lhs) != 1 || len(as.Rhs) != 1 {
									continue
								}
								id, ok := unparen(as.Lhs[0]).(*ast.Ident)
								if !ok {
									continue
								}
								switch {
								case info.ObjectOf(id) == cd.nVar && as.Tok == token.ADD_ASSIGN && usesOnly(info, as.Rhs[0], info.ObjectOf(k)):
									addN = true
								case info.ObjectOf(id) == cd.errVar && as.Tok == token.ASSIGN && usesOnly(info, as.Rhs[0], info.ObjectOf(e)):
									setE = true
								}
							}
							recorded = addN && setE
						}
					}
				}
				switch {
				case !latched:
					o.Verdict, o.Detail = VIOL, "the write is not guarded by the latched error (no enclosing `if err == nil`, no earlier `if err != nil { return }`): after a failed write this closure still writes"
				case !recorded:
					o.Verdict, o.Detail = VIOL, "the results of the write are not both recorded unconditionally (count added to the named result, error stored): WriteTo under-reports n or loses the first error"
				default:
					o.Detail = "behind the error latch; count added and error stored unconditionally"
				}
				obs = append(obs, o)
				return true
			})
		}
	case "W-3":
		o := Obligation{Key: "ir.(*Module).WriteTo returns", Pos: c.pos(fd.Pos()), Verdict: OK}
		nret := 0
		ast.Inspect(fd.Body, func(n ast.Node) bool {
			if _, ok := n.(*ast.FuncLit); ok {
				return false
			}
			r, ok := n.(*ast.ReturnStmt)
			if !ok {
				return true
			}
			nret++
			good := len(r.Results) == 0
			if len(r.Results) == 2 {
				a, _ := unparen(r.Results[0]).(*ast.Ident)
				b, _ := unparen(r.Results[1]).(*ast.Ident)
				good = a != nil && b != nil && info.ObjectOf(a) == cd.nVar && info.ObjectOf(b) == cd.errVar
			}
			if !good && o.Verdict == OK {
				o.Verdict, o.Pos = VIOL, c.pos(r.Pos())
				o.Detail = "a return of WriteTo does not report the recorded byte count and first error (the named results)"
			}
			return true
		})
		if nret == 0 {
			o.Verdict, o.Detail = VIOL, "WriteTo has no return statement"
		} else if o.Verdict == OK {
			o.Detail = fmt.Sprintf("%d return(s) of the named results %s, %s", nret, cd.nVar.Name(), cd.errVar.Name())
		}
		obs = append(obs, o)
	case "W-4":
		for _, v := range []*types.Var{cd.nVar, cd.errVar} {
			o := Obligation{Key: fmt.Sprintf("WriteTo's %s is written only by the recording closures", v.Name()), Pos: c.pos(v.Pos()), Verdict: OK}
			var bad []string
			ast.Inspect(fd.Body, func(n ast.Node) bool {
				var targets []ast.Expr
				switch x := n.(type) {
				case *ast.AssignStmt:
					targets = x.Lhs
				case *ast.IncDecStmt:
					targets = []ast.Expr{x.X}
				case *ast.UnaryExpr:
					if x.Op == token.AND {
						targets = []ast.Expr{x.X}
					}
				}
				for _, t := range targets {
					if id, ok := unparen(t).(*ast.Ident); ok && info.ObjectOf(id) == types.Object(v) {
						fl := enclosingLit(id)
						if fl == nil || !(cd.recorders[fl] && (cd.writers[fl] || len(fl.Type.Params.List) > 0)) {
							bad = append(bad, c.pos(id.Pos()))
						}
					}
				}
				return true
			})
			if len(bad) > 0 {
				o.Verdict = VIOL
				o.Detail = "written outside the closures that record a write's results: " + strings.Join(bad, "; ")
			} else {
				o.Detail = "assigned only inside the recording closures"
			}
			obs = append(obs, o)
		}
		// the writer parameter is reached only inside the writing closures: W-1
		obs = append(obs, Obligation{Key: "WriteTo's writer parameter is reached only inside the writing closures", Pos: c.pos(fd.Pos()), Verdict: OK, Detail: "decided by W-1"})
	}
	return obs
}

func sortedLits(cd *closureDesign) []*ast.FuncLit {
	var out []*ast.FuncLit
	for _, fl := range cd.lits {
		out = append(out, fl)
	}
	sort.Slice(out, func(i, j int) bool { return out[i].Pos() < out[j].Pos() })
	return out
}

package main

import (
	"fmt"
	"go/ast"
	"go/token"
	"go/types"
	"strings"

	"golang.org/x/tools/go/packages"
)

// W — io.WriterTo discipline (C19). All of the module's output must pass the
// counting, error-latching wrapper, and WriteTo must return the wrapper's
// totals.

func init() {
	register(&Rule{
		Name:  "W-1",
		Doc:   "the io.Writer handed to (*Module).WriteTo flows only into the wrapper literal; no other code of package ir writes to an externally supplied io.Writer (fmt.Fprint* / Write / io.WriteString on an io.Writer-typed value) outside the wrapper's methods",
		Floor: 2,
		Run:   ruleW1,
	})
	register(&Rule{
		Name:  "W-2",
		Doc:   "every method of the wrapper that writes: returns first when an error is latched, performs exactly one fmt.Fprint*(fw.w, …), adds its byte count to size and stores its error",
		Floor: 3,
		Run:   ruleW2,
	})
	register(&Rule{
		Name:  "W-3",
		Doc:   "every return of WriteTo returns the wrapper's size and err fields; every output statement of WriteTo is a call on the wrapper",
		Floor: 1,
		Run:   ruleW3,
	})
	register(&Rule{
		Name:  "W-4",
		Doc:   "the wrapper's fields w/size/err are written only inside its own methods (and w in the literal); w is read only there",
		Floor: 3,
		Run:   ruleW4,
	})
	register(&Rule{
		Name:  "W-5",
		Doc:   "(*Module).String obtains its text only from WriteTo on a strings.Builder and returns that builder's String()",
		Floor: 1,
		Run:   ruleW5,
	})
}

type writerInfo struct {
	p        *packages.Package
	writeTo  *ast.FuncDecl
	wParam   *types.Var
	wrapper  *types.Named // fmtWriter
	fW       *types.Var   // field holding the io.Writer
	fSize    *types.Var
	fErr     *types.Var
	methods  []*ast.FuncDecl
	fwVar    *types.Var // local wrapper variable in WriteTo
	problems []string
}

func isIOWriter(t types.Type) bool {
	return isNamed(t, "io", "Writer") && !isPtr(t)
}

func isPtr(t types.Type) bool { _, ok := t.(*types.Pointer); return ok }

func isErrorType(t types.Type) bool {
	return types.Identical(t, types.Universe.Lookup("error").Type())
}

// writerAnchors resolves the anchors of the W rules through types: WriteTo is
// the method of ir.Module implementing io.WriterTo; the wrapper is the struct
// type whose literal receives WriteTo's writer parameter.
func (c *Ctx) writerAnchors() *writerInfo {
	if v, ok := c.memo["writerAnchors"]; ok {
		return v.(*writerInfo)
	}
	wi := &writerInfo{p: c.pkg(pkgIR)}
	c.memo["writerAnchors"] = wi
	fn := c.lookupFunc(pkgIR, "Module.WriteTo")
	wi.writeTo = c.funcDecl(fn)
	if wi.writeTo == nil {
		wi.problems = append(wi.problems, "(*ir.Module).WriteTo not found")
		return wi
	}
	sig := fn.Type().(*types.Signature)
	if sig.Params().Len() != 1 || !isIOWriter(sig.Params().At(0).Type()) {
		wi.problems = append(wi.problems, "WriteTo does not take one io.Writer")
		return wi
	}
	wi.wParam = sig.Params().At(0)
	info := wi.p.TypesInfo
	// the wrapper literal: a composite literal one of whose elements is the parameter
	ast.Inspect(wi.writeTo.Body, func(n ast.Node) bool {
		cl, ok := n.(*ast.CompositeLit)
		if !ok {
			return true
		}
		for _, el := range cl.Elts {
			v := el
			if kv, ok := el.(*ast.KeyValueExpr); ok {
				v = kv.Value
			}
			if id, ok := unparen(v).(*ast.Ident); ok && info.Uses[id] == wi.wParam {
				if n := namedOf(info.Types[cl].Type); n != nil {
					wi.wrapper = n
				}
			}
		}
		return true
	})
	if wi.wrapper == nil {
		wi.problems = append(wi.problems, "no wrapper literal receiving WriteTo's writer")
		return wi
	}
	st, _ := wi.wrapper.Underlying().(*types.Struct)
	if st == nil {
		wi.problems = append(wi.problems, "wrapper is not a struct")
		return wi
	}
	for i := 0; i < st.NumFields(); i++ {
		f := st.Field(i)
		switch {
		case isIOWriter(f.Type()):
			wi.fW = f
		case isErrorType(f.Type()):
			wi.fErr = f
		default:
			if b, ok := f.Type().Underlying().(*types.Basic); ok && b.Info()&types.IsInteger != 0 {
				wi.fSize = f
			}
		}
	}
	if wi.fW == nil || wi.fErr == nil || wi.fSize == nil || st.NumFields() != 3 {
		wi.problems = append(wi.problems, "wrapper does not have exactly the fields {io.Writer, integer count, error}")
		return wi
	}
	c.eachFunc(pkgIR, func(p *packages.Package, fd *ast.FuncDecl, obj *types.Func) {
		if r := obj.Type().(*types.Signature).Recv(); r != nil && namedOf(r.Type()) == wi.wrapper {
			wi.methods = append(wi.methods, fd)
		}
	})
	// local variable holding the wrapper in WriteTo
	ast.Inspect(wi.writeTo.Body, func(n ast.Node) bool {
		as, ok := n.(*ast.AssignStmt)
		if !ok || len(as.Lhs) != 1 || len(as.Rhs) != 1 {
			return true
		}
		if namedOf(info.TypeOf(as.Rhs[0])) == wi.wrapper {
			if id, ok := as.Lhs[0].(*ast.Ident); ok {
				if v, ok := info.ObjectOf(id).(*types.Var); ok && wi.fwVar == nil {
					wi.fwVar = v
				}
			}
		}
		return true
	})
	if wi.fwVar == nil {
		wi.problems = append(wi.problems, "WriteTo does not keep the wrapper in a local variable")
	}
	return wi
}

func (wi *writerInfo) undecided(rule string) []Obligation {
	return []Obligation{{Rule: rule, Key: "anchors", Verdict: UNDECIDED, Detail: strings.Join(wi.problems, "; ")}}
}

// isWriteCall reports whether call writes to an io.Writer-typed operand and returns that operand.
func isWriteCall(info *types.Info, call *ast.CallExpr) ast.Expr {
	fn := calleeOf(info, call)
	if fn != nil && fn.Pkg() != nil {
		switch {
		case fn.Pkg().Path() == "fmt" && strings.HasPrefix(fn.Name(), "Fprint") && len(call.Args) > 0:
			return call.Args[0]
		case fn.Pkg().Path() == "io" && (fn.Name() == "WriteString" || fn.Name() == "Copy" || fn.Name() == "CopyN") && len(call.Args) > 0:
			return call.Args[0]
		}
	}
	if se, ok := unparen(call.Fun).(*ast.SelectorExpr); ok {
		switch se.Sel.Name {
		case "Write", "WriteString", "WriteByte", "WriteRune", "ReadFrom":
			if _, ok := info.Selections[se]; ok {
				return se.X
			}
		}
	}
	return nil
}

func ruleW1(c *Ctx) []Obligation {
	wi := c.writerAnchors()
	if len(wi.problems) > 0 {
		return wi.undecided("W-1")
	}
	var obs []Obligation
	info := wi.p.TypesInfo
	// (a) uses of the parameter in WriteTo
	uses, bad := 0, []string{}
	var stack []ast.Node
	ast.Inspect(wi.writeTo.Body, func(n ast.Node) bool {
		if n == nil {
			stack = stack[:len(stack)-1]
			return true
		}
		stack = append(stack, n)
		id, ok := n.(*ast.Ident)
		if !ok || info.Uses[id] != wi.wParam {
			return true
		}
		uses++
		okUse := false
		for i := len(stack) - 2; i >= 0 && i >= len(stack)-3; i-- {
			if cl, ok := stack[i].(*ast.CompositeLit); ok && namedOf(info.Types[cl].Type) == wi.wrapper {
				okUse = true
			}
		}
		if !okUse {
			bad = append(bad, c.pos(id.Pos()))
		}
		return true
	})
	o := Obligation{Key: "ir.(*Module).WriteTo writer parameter", Pos: c.pos(wi.writeTo.Pos()), Verdict: OK,
		Detail: fmt.Sprintf("%d use(s), all inside the %s literal", uses, wi.wrapper.Obj().Name())}
	if len(bad) > 0 || uses == 0 {
		o.Verdict = VIOL
		o.Detail = fmt.Sprintf("writer parameter used outside the %s literal at %v: output can bypass the byte counter and error latch", wi.wrapper.Obj().Name(), bad)
	}
	obs = append(obs, o)
	// (b) any write to an io.Writer-typed value anywhere in the ir packages
	n := 0
	for _, path := range []string{pkgIR, pkgCONS, pkgMD, pkgTYP, pkgVAL, pkgENUM} {
		c.eachFunc(path, func(p *packages.Package, fd *ast.FuncDecl, obj *types.Func) {
			inWrapper := false
			if r := obj.Type().(*types.Signature).Recv(); r != nil && namedOf(r.Type()) == wi.wrapper {
				inWrapper = true
			}
			idx := 0
			ast.Inspect(fd.Body, func(nd ast.Node) bool {
				call, ok := nd.(*ast.CallExpr)
				if !ok {
					return true
				}
				dst := isWriteCall(p.TypesInfo, call)
				if dst == nil {
					return true
				}
				t := p.TypesInfo.TypeOf(dst)
				if t == nil || !types.IsInterface(t) {
					return true // a concrete *strings.Builder / *bytes.Buffer owned by the printer
				}
				n++
				idx++
				o := Obligation{Key: fmt.Sprintf("write to interface-typed writer in %s #%d", funcKey(obj), idx), Pos: c.pos(call.Pos()), Verdict: OK}
				if inWrapper {
					if se, ok := unparen(dst).(*ast.SelectorExpr); ok && p.TypesInfo.ObjectOf(se.Sel) == wi.fW {
						o.Detail = "wrapper method writes to its own writer field"
					} else {
						o.Verdict = VIOL
						o.Detail = "wrapper method writes to something other than its writer field: " + exprString(dst)
					}
				} else {
					o.Verdict = VIOL
					o.Detail = fmt.Sprintf("%s writes to an %s directly (%s); output written this way is neither counted nor stopped after the first error", funcKey(obj), typeKey(t), exprString(call.Fun))
				}
				obs = append(obs, o)
				return true
			})
		})
	}
	return obs
}

func ruleW2(c *Ctx) []Obligation {
	wi := c.writerAnchors()
	if len(wi.problems) > 0 {
		return wi.undecided("W-2")
	}
	info := wi.p.TypesInfo
	var obs []Obligation
	isField := func(e ast.Expr, f *types.Var) bool {
		se, ok := unparen(e).(*ast.SelectorExpr)
		return ok && info.ObjectOf(se.Sel) == f
	}
	for _, fd := range wi.methods {
		fn := info.Defs[fd.Name].(*types.Func)
		// does the method write at all?
		var calls []*ast.CallExpr
		ast.Inspect(fd.Body, func(n ast.Node) bool {
			if call, ok := n.(*ast.CallExpr); ok {
				for _, a := range call.Args {
					if isField(a, wi.fW) {
						calls = append(calls, call)
					}
				}
				if se, ok := unparen(call.Fun).(*ast.SelectorExpr); ok && isField(se.X, wi.fW) {
					calls = append(calls, call)
				}
			}
			return true
		})
		if len(calls) == 0 {
			continue
		}
		o := Obligation{Key: "wrapper method " + funcKey(fn), Pos: c.pos(fd.Pos()), Verdict: OK}
		fail := func(v, s string) {
			if o.Verdict == OK {
				o.Verdict, o.Detail = v, s
			}
		}
		stmts := fd.Body.List
		// 1. latch test first
		if len(stmts) == 0 {
			fail(UNDECIDED, "empty body")
		} else if is, ok := stmts[0].(*ast.IfStmt); !ok || is.Init != nil || is.Else != nil {
			fail(VIOL, "first statement is not `if fw.err != nil { return … }`: a write after a failed write is not suppressed")
		} else {
			be, ok := is.Cond.(*ast.BinaryExpr)
			if !ok || be.Op != token.NEQ || !isField(be.X, wi.fErr) || exprString(be.Y) != "nil" {
				fail(VIOL, "first statement does not test the latched error against nil: a write after a failed write is not suppressed")
			} else if len(is.Body.List) == 0 {
				fail(VIOL, "latch test has an empty body")
			} else if _, ok := is.Body.List[len(is.Body.List)-1].(*ast.ReturnStmt); !ok {
				fail(VIOL, "latch test does not return")
			}
			for _, call := range calls {
				if call.Pos() >= is.Pos() && call.End() <= is.End() {
					fail(VIOL, "the latched-error branch itself writes")
				}
			}
		}
		// 2. exactly one write, of the fmt.Fprint family, as a top-level `n, err = …`
		if len(calls) != 1 {
			fail(VIOL, fmt.Sprintf("%d calls use the writer field; the byte count of only one can be recorded", len(calls)))
		}
		var nV, errV types.Object
		wIdx := -1
		for i, st := range stmts {
			as, ok := st.(*ast.AssignStmt)
			if !ok || len(as.Rhs) != 1 || len(as.Lhs) != 2 {
				continue
			}
			if call, ok := as.Rhs[0].(*ast.CallExpr); ok && len(calls) > 0 && call == calls[0] {
				cal := calleeOf(info, call)
				if cal == nil || cal.Pkg() == nil || cal.Pkg().Path() != "fmt" || !strings.HasPrefix(cal.Name(), "Fprint") || !isField(call.Args[0], wi.fW) {
					fail(VIOL, "the write is not fmt.Fprint*(fw.w, …)")
				}
				if a, ok := as.Lhs[0].(*ast.Ident); ok {
					nV = info.ObjectOf(a)
				}
				if b, ok := as.Lhs[1].(*ast.Ident); ok {
					errV = info.ObjectOf(b)
				}
				wIdx = i
			}
		}
		if wIdx < 0 || nV == nil || errV == nil {
			fail(VIOL, "the write's (n, err) results are not both kept in variables at the top level of the method")
		} else {
			// 3. after the write: size += int64(n); err = err (optionally under `if err != nil`)
			sizeOK, errOK := false, false
			for _, st := range stmts[wIdx+1:] {
				switch st := st.(type) {
				case *ast.AssignStmt:
					if len(st.Lhs) == 1 && len(st.Rhs) == 1 {
						if isField(st.Lhs[0], wi.fSize) && st.Tok == token.ADD_ASSIGN && usesOnly(info, st.Rhs[0], nV) {
							sizeOK = true
						} else if isField(st.Lhs[0], wi.fSize) {
							fail(VIOL, "size is updated with something other than `+= n` of the write")
						}
						if isField(st.Lhs[0], wi.fErr) && st.Tok == token.ASSIGN && usesOnly(info, st.Rhs[0], errV) {
							errOK = true
						} else if isField(st.Lhs[0], wi.fErr) {
							fail(VIOL, "err is set to something other than the write's error")
						}
					}
				case *ast.IfStmt:
					// if err != nil { fw.err = err }
					if be, ok := st.Cond.(*ast.BinaryExpr); ok && be.Op == token.NEQ && usesOnly(info, be.X, errV) && exprString(be.Y) == "nil" && len(st.Body.List) == 1 && st.Else == nil {
						if as, ok := st.Body.List[0].(*ast.AssignStmt); ok && len(as.Lhs) == 1 && isField(as.Lhs[0], wi.fErr) && usesOnly(info, as.Rhs[0], errV) {
							errOK = true
						}
					}
				}
			}
			if !sizeOK {
				fail(VIOL, "the byte count of the write is not added to the size field: WriteTo under-reports n")
			}
			if !errOK {
				fail(VIOL, "the error of the write is not stored in the err field: the first write error is lost and later writes continue")
			}
		}
		if o.Verdict == OK {
			o.Detail = "latch test; one fmt.Fprint*(fw.w, …); size += n; err = err"
		}
		obs = append(obs, o)
	}
	return obs
}

// usesOnly reports whether e is obj, possibly wrapped in conversions.
func usesOnly(info *types.Info, e ast.Expr, obj types.Object) bool {
	e = unparen(e)
	if call, ok := e.(*ast.CallExpr); ok && len(call.Args) == 1 {
		if tv, ok := info.Types[call.Fun]; ok && tv.IsType() {
			return usesOnly(info, call.Args[0], obj)
		}
	}
	id, ok := e.(*ast.Ident)
	return ok && info.ObjectOf(id) == obj
}

func ruleW3(c *Ctx) []Obligation {
	wi := c.writerAnchors()
	if len(wi.problems) > 0 {
		return wi.undecided("W-3")
	}
	info := wi.p.TypesInfo
	var obs []Obligation
	isFwField := func(e ast.Expr, f *types.Var) bool {
		se, ok := unparen(e).(*ast.SelectorExpr)
		if !ok || info.ObjectOf(se.Sel) != f {
			return false
		}
		id, ok := unparen(se.X).(*ast.Ident)
		return ok && info.ObjectOf(id) == wi.fwVar
	}
	nret := 0
	o := Obligation{Key: "ir.(*Module).WriteTo returns", Pos: c.pos(wi.writeTo.Pos()), Verdict: OK}
	ast.Inspect(wi.writeTo.Body, func(n ast.Node) bool {
		if _, ok := n.(*ast.FuncLit); ok {
			return false
		}
		r, ok := n.(*ast.ReturnStmt)
		if !ok {
			return true
		}
		nret++
		if len(r.Results) != 2 || !isFwField(r.Results[0], wi.fSize) || !isFwField(r.Results[1], wi.fErr) {
			if o.Verdict == OK {
				o.Verdict = VIOL
				o.Pos = c.pos(r.Pos())
				res := []string{}
				for _, x := range r.Results {
					res = append(res, exprString(x))
				}
				o.Detail = fmt.Sprintf("return %s: WriteTo must report the wrapper's byte count and first error (%s.%s, %s.%s)", strings.Join(res, ", "), wi.fwVar.Name(), wi.fSize.Name(), wi.fwVar.Name(), wi.fErr.Name())
			}
		}
		return true
	})
	if nret == 0 {
		o.Verdict, o.Detail = VIOL, "WriteTo has no return statement"
	} else if o.Verdict == OK {
		o.Detail = fmt.Sprintf("%d return(s), each `return %s.%s, %s.%s`", nret, wi.fwVar.Name(), wi.fSize.Name(), wi.fwVar.Name(), wi.fErr.Name())
	}
	obs = append(obs, o)
	// the size field is only read (never assigned) in WriteTo — covered by W-4.
	return obs
}

func ruleW4(c *Ctx) []Obligation {
	wi := c.writerAnchors()
	if len(wi.problems) > 0 {
		return wi.undecided("W-4")
	}
	var obs []Obligation
	type acc struct{ writes, reads []string }
	accs := map[*types.Var]*acc{wi.fW: {}, wi.fSize: {}, wi.fErr: {}}
	p := wi.p
	info := p.TypesInfo
	c.eachFunc(pkgIR, func(_ *packages.Package, fd *ast.FuncDecl, obj *types.Func) {
		inWrapper := false
		if r := obj.Type().(*types.Signature).Recv(); r != nil && namedOf(r.Type()) == wi.wrapper {
			inWrapper = true
		}
		if inWrapper {
			return
		}
		written := map[ast.Expr]bool{}
		ast.Inspect(fd.Body, func(n ast.Node) bool {
			switch n := n.(type) {
			case *ast.AssignStmt:
				for _, l := range n.Lhs {
					written[unparen(l)] = true
				}
			case *ast.IncDecStmt:
				written[unparen(n.X)] = true
			case *ast.UnaryExpr:
				if n.Op == token.AND {
					written[unparen(n.X)] = true // address taken: treat as a write
				}
			}
			return true
		})
		ast.Inspect(fd.Body, func(n ast.Node) bool {
			se, ok := n.(*ast.SelectorExpr)
			if !ok {
				return true
			}
			f, ok := info.ObjectOf(se.Sel).(*types.Var)
			if !ok || accs[f] == nil {
				return true
			}
			where := fmt.Sprintf("%s (%s)", funcKey(obj), c.pos(se.Pos()))
			if written[se] {
				accs[f].writes = append(accs[f].writes, where)
			} else {
				accs[f].reads = append(accs[f].reads, where)
			}
			return true
		})
		// composite literals of the wrapper outside WriteTo, or with keys other than w
		ast.Inspect(fd.Body, func(n ast.Node) bool {
			cl, ok := n.(*ast.CompositeLit)
			if !ok || namedOf(info.Types[cl].Type) != wi.wrapper {
				return true
			}
			for _, el := range cl.Elts {
				kv, ok := el.(*ast.KeyValueExpr)
				if !ok {
					accs[wi.fSize].writes = append(accs[wi.fSize].writes, fmt.Sprintf("positional wrapper literal in %s (%s)", funcKey(obj), c.pos(cl.Pos())))
					continue
				}
				if id, ok := kv.Key.(*ast.Ident); ok {
					if f, _ := info.ObjectOf(id).(*types.Var); f != nil && f != wi.fW && accs[f] != nil {
						accs[f].writes = append(accs[f].writes, fmt.Sprintf("wrapper literal presets %s in %s (%s)", f.Name(), funcKey(obj), c.pos(kv.Pos())))
					}
				}
			}
			return true
		})
	})
	for _, f := range []*types.Var{wi.fW, wi.fSize, wi.fErr} {
		a := accs[f]
		o := Obligation{Key: fmt.Sprintf("%s.%s accesses outside its methods", wi.wrapper.Obj().Name(), f.Name()), Pos: c.pos(f.Pos()), Verdict: OK,
			Detail: fmt.Sprintf("%d write(s), %d read(s) outside the wrapper's methods", len(a.writes), len(a.reads))}
		if len(a.writes) > 0 {
			o.Verdict = VIOL
			o.Detail = "written outside the wrapper's methods: " + strings.Join(a.writes, "; ")
		} else if f == wi.fW && len(a.reads) > 0 {
			o.Verdict = VIOL
			o.Detail = "the underlying writer is reached outside the wrapper's methods: " + strings.Join(a.reads, "; ")
		}
		obs = append(obs, o)
	}
	return obs
}

func ruleW5(c *Ctx) []Obligation {
	wi := c.writerAnchors()
	if len(wi.problems) > 0 {
		return wi.undecided("W-5")
	}
	fn := c.lookupFunc(pkgIR, "Module.String")
	fd := c.funcDecl(fn)
	o := Obligation{Key: "ir.(*Module).String", Verdict: OK}
	if fd == nil {
		o.Verdict, o.Detail = UNDECIDED, "(*Module).String not found"
		return []Obligation{o}
	}
	o.Pos = c.pos(fd.Pos())
	info := wi.p.TypesInfo
	writeToFn := info.Defs[wi.writeTo.Name]
	var bufObj types.Object
	nWriteTo := 0
	ast.Inspect(fd.Body, func(n ast.Node) bool {
		call, ok := n.(*ast.CallExpr)
		if !ok {
			return true
		}
		if cal := calleeOf(info, call); cal != nil && cal == writeToFn && len(call.Args) == 1 {
			nWriteTo++
			if id, ok := unparen(call.Args[0]).(*ast.Ident); ok && isNamed(info.TypeOf(id), "strings", "Builder") {
				bufObj = info.ObjectOf(id)
			}
		}
		return true
	})
	if nWriteTo != 1 || bufObj == nil {
		o.Verdict, o.Detail = VIOL, "String does not call WriteTo exactly once on a *strings.Builder"
		return []Obligation{o}
	}
	okRet := false
	nRet := 0
	ast.Inspect(fd.Body, func(n ast.Node) bool {
		r, ok := n.(*ast.ReturnStmt)
		if !ok {
			return true
		}
		nRet++
		if len(r.Results) == 1 {
			if call, ok := r.Results[0].(*ast.CallExpr); ok && len(call.Args) == 0 {
				if se, ok := call.Fun.(*ast.SelectorExpr); ok && se.Sel.Name == "String" {
					if id, ok := se.X.(*ast.Ident); ok && info.ObjectOf(id) == bufObj {
						okRet = true
					}
				}
			}
		}
		return true
	})
	if !okRet || nRet != 1 {
		o.Verdict, o.Detail = VIOL, "String does not return exactly the builder that WriteTo filled"
	} else {
		o.Detail = "WriteTo(buf); return buf.String()"
	}
	return []Obligation{o}
}

package main

import (
	"fmt"
	"go/ast"
	"go/constant"
	"go/token"
	"go/types"
	"sort"
	"strings"

	"golang.org/x/tools/go/packages"
)

// NUM — numbering of unnamed values (C08, C02).

func init() {
	register(&Rule{
		Name:  "NUM-SHAPE",
		Doc:   "the printer's numbering traversal and the parser's indexing traversal of a function visit the same entities in the same nest and under the same filters: parameters; per block the block, each instruction that is a named value and whose type is not void, then the terminator under the same two tests; both assert the same interface",
		Floor: 2,
		Run:   ruleNUMSHAPE,
	})
	register(&Rule{
		Name:  "NUM-PREFIX",
		Doc:   "an instruction or terminator type carries a local identifier exactly when its printer starts with `<ident> = `; the prefix is conditional on a non-void type exactly for the call-like types whose result can be void — the same predicate the numbering uses to skip — so what is numbered is what is printed with a name",
		Floor: 60,
		Run:   ruleNUMPREFIX,
	})
	register(&Rule{
		Name:  "NUM-REDERIVE",
		Doc:   "every numbering routine stores only its position counter as the ID (the previous ID is read only by guards), the counter starts at a constant and advances exactly once per unnamed entity",
		Floor: 2,
		Run:   ruleNUMREDERIVE,
	})
	register(&Rule{
		Name:  "NUM-AUTH",
		Doc:   "each ID space (local, global, metadata) has one numbering authority: one function that hands out counter-derived IDs; a second authority with its own traversal order makes parser and printer disagree on which value is %N / @N",
		Floor: 3,
		Run:   ruleNUMAUTH,
	})
}

// traversalSignature summarises the loop nest and filters of a numbering / indexing traversal.
func traversalSignature(info *types.Info, fd *ast.FuncDecl, action map[string]bool) string {
	var b strings.Builder
	var walkStmts func(list []ast.Stmt)
	walkExprForAct := func(n ast.Node) {
		ast.Inspect(n, func(m ast.Node) bool {
			if _, ok := m.(*ast.FuncLit); ok {
				return false
			}
			if call, ok := m.(*ast.CallExpr); ok {
				name := ""
				switch f := unparen(call.Fun).(type) {
				case *ast.Ident:
					name = f.Name
				case *ast.SelectorExpr:
					name = f.Sel.Name
				}
				if action[name] {
					arg := ""
					if len(call.Args) > 0 {
						a := call.Args[len(call.Args)-1]
						if t := info.TypeOf(a); t != nil {
							if n := namedOf(t); n != nil {
								arg = n.Obj().Name()
							} else if types.IsInterface(t) {
								arg = "value"
							}
						}
					}
					b.WriteString("act(" + arg + ");")
				}
			}
			return true
		})
	}
	walkStmts = func(list []ast.Stmt) {
		for _, st := range list {
			switch st := st.(type) {
			case *ast.RangeStmt:
				field := "?"
				if se, ok := unparen(st.X).(*ast.SelectorExpr); ok {
					field = se.Sel.Name
				}
				b.WriteString("range " + field + "{")
				walkStmts(st.Body.List)
				b.WriteString("}")
			case *ast.AssignStmt:
				// v, ok := x.(iface)  /  v, ok := block.Term.(iface)
				if len(st.Rhs) == 1 {
					if ta, ok := st.Rhs[0].(*ast.TypeAssertExpr); ok && ta.Type != nil {
						src := "elem"
						if se, ok := unparen(ta.X).(*ast.SelectorExpr); ok {
							src = se.Sel.Name
						}
						b.WriteString("assert(" + src + ");")
						continue
					}
				}
				walkExprForAct(st)
			case *ast.IfStmt:
				cond := exprString(st.Cond)
				switch {
				case strings.Contains(cond, "Void"):
					neg := ""
					if strings.Contains(cond, "!ok") {
						neg = "!ok||"
					}
					b.WriteString("skipif(" + neg + "void);")
				case strings.ReplaceAll(cond, " ", "") == "!ok":
					b.WriteString("skipif(!ok);")
				default:
					if st.Init != nil {
						walkExprForAct(st.Init)
					}
					// error propagation around an action
					walkExprForAct(st.Cond)
				}
			case *ast.ExprStmt, *ast.ReturnStmt:
				walkExprForAct(st)
			}
		}
	}
	walkStmts(fd.Body.List)
	s := b.String()
	// normalise `skipif(!ok);skipif(void)` and `skipif(!ok||void)`
	s = strings.ReplaceAll(s, "skipif(!ok);skipif(void);", "skipif(!ok||void);")
	return s
}

// numActions returns the recognisers of the numbering action (printer side:
// whatever function, method or closure calls SetID on its own parameter) and of
// the indexing action (parser side: whatever stores its last argument into
// funcGen.locals).
func (c *Ctx) numActions() (printerAct, parserAct func(p *packages.Package, call *ast.CallExpr) (ast.Expr, bool)) {
	// the action: on the printer side whatever function, method or closure calls SetID on
	// its own parameter; on the parser side whatever stores its last argument into funcGen.locals
	setsIDOnParam := func(info *types.Info, ft *ast.FuncType, body *ast.BlockStmt) bool {
		params := map[types.Object]bool{}
		for _, f := range ft.Params.List {
			for _, nm := range f.Names {
				params[info.Defs[nm]] = true
			}
		}
		found := false
		ast.Inspect(body, func(n ast.Node) bool {
			if call, ok := n.(*ast.CallExpr); ok {
				if objE, _, ok := c.idSetCall(info, call); ok {
					if id, ok := unparen(objE).(*ast.Ident); ok && params[info.ObjectOf(id)] {
						found = true
					}
				}
			}
			return true
		})
		return found
	}
	irInfo := c.pkg(pkgIR).TypesInfo
	closureActs := map[types.Object]bool{}
	c.eachFunc(pkgIR, func(p *packages.Package, fd *ast.FuncDecl, fn *types.Func) {
		ast.Inspect(fd.Body, func(n ast.Node) bool {
			if as, ok := n.(*ast.AssignStmt); ok && len(as.Lhs) == 1 && len(as.Rhs) == 1 {
				if fl, ok := as.Rhs[0].(*ast.FuncLit); ok && setsIDOnParam(irInfo, fl.Type, fl.Body) {
					if id, ok := as.Lhs[0].(*ast.Ident); ok {
						closureActs[irInfo.ObjectOf(id)] = true
					}
				}
			}
			return true
		})
	})
	printerAct = func(p *packages.Package, call *ast.CallExpr) (ast.Expr, bool) {
		if len(call.Args) == 0 {
			return nil, false
		}
		if id, ok := unparen(call.Fun).(*ast.Ident); ok && closureActs[p.TypesInfo.ObjectOf(id)] {
			return call.Args[0], true
		}
		if callee := calleeOf(p.TypesInfo, call); callee != nil && callee.Pkg() != nil && callee.Pkg().Path() == pkgIR {
			if fd := c.funcDecl(callee); fd != nil && fd.Body != nil && setsIDOnParam(c.declPkg[fd].TypesInfo, fd.Type, fd.Body) {
				return call.Args[0], true
			}
		}
		return nil, false
	}
	parserAct = func(p *packages.Package, call *ast.CallExpr) (ast.Expr, bool) {
		if len(call.Args) == 0 {
			return nil, false
		}
		callee := calleeOf(p.TypesInfo, call)
		if callee == nil || callee.Pkg() == nil || callee.Pkg().Path() != pkgASM {
			return nil, false
		}
		fd := c.funcDecl(callee)
		if fd == nil || fd.Body == nil {
			return nil, false
		}
		ci := c.declPkg[fd].TypesInfo
		stores := false
		ast.Inspect(fd.Body, func(n ast.Node) bool {
			if as, ok := n.(*ast.AssignStmt); ok && len(as.Lhs) == 1 {
				if ix, ok := unparen(as.Lhs[0]).(*ast.IndexExpr); ok && mapFieldName(ci, ix.X) == "funcGen.locals" {
					stores = true
				}
			}
			return true
		})
		if !stores {
			return nil, false
		}
		return call.Args[len(call.Args)-1], true
	}
	return printerAct, parserAct
}

func ruleNUMSHAPE(c *Ctx) []Obligation {
	var obs []Obligation
	assign := c.lookupFunc(pkgIR, "Func.AssignIDs")
	afd := c.funcDecl(assign)
	if afd == nil {
		return []Obligation{{Key: "ir.(*Func).AssignIDs", Verdict: UNDECIDED, Detail: "not found"}}
	}
	// the parser's traversal: the method of funcGen that ranges over f.Params and f.Blocks and registers locals
	var idx *types.Func
	var ifd *ast.FuncDecl
	// (the traversal may be split: indexLocals ranges Params and Blocks, a helper it calls ranges
	// Insts — the walk below inlines helpers, so only the root has to be found)
	ainfo := c.pkg(pkgASM).TypesInfo
	direct := map[*types.Func]map[string]bool{}
	callees := map[*types.Func][]*types.Func{}
	c.eachFunc(pkgASM, func(p *packages.Package, fd *ast.FuncDecl, fn *types.Func) {
		direct[fn] = map[string]bool{}
		ast.Inspect(fd.Body, func(n ast.Node) bool {
			switch x := n.(type) {
			case *ast.RangeStmt:
				if se, ok := unparen(x.X).(*ast.SelectorExpr); ok {
					switch se.Sel.Name {
					case "Params", "Blocks", "Insts":
						direct[fn][se.Sel.Name] = true
					}
				}
			case *ast.CallExpr:
				if g := calleeOf(ainfo, x); g != nil && g.Pkg() != nil && g.Pkg().Path() == pkgASM {
					callees[fn] = append(callees[fn], g)
				}
			}
			return true
		})
	})
	var reachRanges func(fn *types.Func, depth int, seen map[*types.Func]bool) map[string]bool
	reachRanges = func(fn *types.Func, depth int, seen map[*types.Func]bool) map[string]bool {
		out := map[string]bool{}
		if seen[fn] || depth > 2 {
			return out
		}
		seen[fn] = true
		for k := range direct[fn] {
			out[k] = true
		}
		for _, g := range callees[fn] {
			for k := range reachRanges(g, depth+1, seen) {
				out[k] = true
			}
		}
		return out
	}
	c.eachFunc(pkgASM, func(p *packages.Package, fd *ast.FuncDecl, fn *types.Func) {
		if !direct[fn]["Params"] {
			return
		}
		r := reachRanges(fn, 0, map[*types.Func]bool{})
		if r["Params"] && r["Blocks"] && r["Insts"] {
			idx, ifd = fn, fd
		}
	})
	if ifd == nil {
		return []Obligation{{Key: "parser-side indexing traversal", Verdict: UNDECIDED, Detail: "no function of package asm ranges over a function's Params, Blocks and Insts"}}
	}
	printerAct, parserAct := c.numActions()
	sa := c.numSignature(afd, printerAct)
	si := c.numSignature(ifd, parserAct)
	norm := func(s string) string { return s }
	o := Obligation{Key: fmt.Sprintf("%s ≅ %s", funcKey(assign), funcKey(idx)), Pos: c.pos(ifd.Pos()), Verdict: OK, Detail: "both: " + sa}
	switch {
	case !strings.Contains(sa, "Blocks{") || !strings.Contains(si, "Blocks{") || !strings.Contains(sa, "act(") || !strings.Contains(si, "act("):
		o.Verdict, o.Detail = UNDECIDED, fmt.Sprintf("traversal not recognised: printer %q, parser %q", sa, si)
	case norm(sa) != norm(si):
		o.Verdict = VIOL
		o.Detail = fmt.Sprintf("the printer numbers %q but the parser indexes %q: a %%N in the input is bound to a different value than the one the printer calls %%N", norm(sa), norm(si))
	}
	obs = append(obs, o)
	// the two asserted interfaces have identical method sets
	nv := c.lookupType(pkgIR, "namedVar")
	lc := c.lookupType(pkgASM, "local")
	o2 := Obligation{Key: "ir.namedVar ≡ asm.local", Verdict: OK}
	if nv == nil || lc == nil {
		o2.Verdict, o2.Detail = UNDECIDED, "interface types not found"
	} else {
		a, b := nv.Type().Underlying().(*types.Interface), lc.Type().Underlying().(*types.Interface)
		ms := func(i *types.Interface) string {
			var s []string
			for k := 0; k < i.NumMethods(); k++ {
				s = append(s, i.Method(k).Name()+types.TypeString(i.Method(k).Type(), nil))
			}
			sort.Strings(s)
			return strings.Join(s, ";")
		}
		o2.Pos = c.pos(lc.Pos())
		if ms(a) != ms(b) {
			o2.Verdict = VIOL
			o2.Detail = "the interface the printer asserts before numbering and the one the parser asserts before indexing differ: some value is numbered on one side only"
		} else {
			o2.Detail = fmt.Sprintf("%d methods each, identical", a.NumMethods())
		}
	}
	obs = append(obs, o2)
	return obs
}

// ---------------------------------------------------------------------------

// firstWriteIsIdentPrefix: the first thing a printer writes is `<x.Ident()> = `, possibly under
// a condition. The printer is followed through helpers of its package — a section method on
// the same receiver (inst.writeResult(buf)), a function that receives the identifier as an
// argument (conversionLLString(inst.Ident(), "trunc", …)) or a delegate (return inst.llString(ind))
// — with parameters bound to the caller's arguments. Recognised spellings of the prefix:
//
//	fmt.Fprintf(buf, "%s = …", id)     buf.WriteString(id + " = …")     buf.WriteString(id); buf.WriteString(" = …")
//
// and of the condition: `if COND { prefix }` or the guard clause `if NOT-COND { return }` before it.
func (c *Ctx) firstWriteIsIdentPrefix(fd *ast.FuncDecl, bind map[types.Object]ast.Expr, depth int) (prefix, conditional bool, condText string) {
	if fd == nil || fd.Body == nil || depth > 3 {
		return false, false, ""
	}
	info := c.declPkg[fd].TypesInfo
	resolve := func(e ast.Expr) ast.Expr {
		for i := 0; i < 4; i++ {
			id, ok := unparen(e).(*ast.Ident)
			if !ok {
				break
			}
			b, ok := bind[info.ObjectOf(id)]
			if !ok {
				break
			}
			e = b
		}
		return e
	}
	isIdent := func(e ast.Expr) bool {
		return strings.HasSuffix(exprString(unparen(resolve(e))), ".Ident()")
	}
	constStr := func(e ast.Expr) (string, bool) {
		if tv := info.Types[e]; tv.Value != nil && tv.Value.Kind() == constant.String {
			return constant.StringVal(tv.Value), true
		}
		return "", false
	}
	writeArg := func(st ast.Stmt) ast.Expr {
		es, ok := st.(*ast.ExprStmt)
		if !ok {
			return nil
		}
		call, ok := es.X.(*ast.CallExpr)
		if !ok || len(call.Args) != 1 {
			return nil
		}
		if se, ok := unparen(call.Fun).(*ast.SelectorExpr); ok && se.Sel.Name == "WriteString" {
			return call.Args[0]
		}
		return nil
	}
	prefixAt := func(list []ast.Stmt, i int) int {
		if es, ok := list[i].(*ast.ExprStmt); ok {
			if call, ok := es.X.(*ast.CallExpr); ok && len(call.Args) >= 3 {
				if f := calleeOf(info, call); f != nil && f.Pkg() != nil && f.Pkg().Path() == "fmt" && f.Name() == "Fprintf" {
					if format, ok := constStr(call.Args[1]); ok && strings.HasPrefix(format, "%s = ") && isIdent(call.Args[2]) {
						return 1
					}
				}
			}
		}
		if a := writeArg(list[i]); a != nil {
			if be, ok := unparen(a).(*ast.BinaryExpr); ok && be.Op == token.ADD && isIdent(be.X) {
				if s, ok := constStr(be.Y); ok && strings.HasPrefix(s, " = ") {
					return 1
				}
			}
			if isIdent(a) && i+1 < len(list) {
				if b := writeArg(list[i+1]); b != nil {
					if s, ok := constStr(b); ok && strings.HasPrefix(s, " = ") {
						return 2
					}
				}
			}
		}
		return 0
	}
	// helper of the module that this statement delegates output to, with its parameter bindings
	helperOf := func(e ast.Expr) (*ast.FuncDecl, map[types.Object]ast.Expr) {
		call, ok := unparen(e).(*ast.CallExpr)
		if !ok {
			return nil, nil
		}
		callee := calleeOf(info, call)
		if callee == nil || callee.Pkg() == nil || !c.isLLVM(callee.Pkg().Path()) {
			return nil, nil
		}
		hfd := c.funcDecl(callee)
		if hfd == nil || hfd.Body == nil || hfd == fd {
			return nil, nil
		}
		// only helpers that can write: they take a builder / writer, or return the text
		sig := callee.Type().(*types.Signature)
		writes := false
		for i := 0; i < sig.Params().Len(); i++ {
			if strings.Contains(types.TypeString(sig.Params().At(i).Type(), nil), "strings.Builder") || isIOWriter(sig.Params().At(i).Type()) {
				writes = true
			}
		}
		if sig.Results().Len() == 1 && isPlainString(sig.Results().At(0).Type()) {
			writes = true
		}
		if !writes {
			return nil, nil
		}
		hb := map[types.Object]ast.Expr{}
		k := 0
		hi := c.declPkg[hfd].TypesInfo
		for _, f := range hfd.Type.Params.List {
			for _, nm := range f.Names {
				if k < len(call.Args) {
					hb[hi.Defs[nm]] = resolve(call.Args[k])
				}
				k++
			}
		}
		return hfd, hb
	}
	list := fd.Body.List
	pendingGuard := "" // a guard clause `if G { return }` met before the first write
	for i, st := range list {
		if n := prefixAt(list, i); n > 0 {
			if pendingGuard != "" {
				return true, true, "!(" + pendingGuard + ")"
			}
			return true, false, ""
		}
		switch x := st.(type) {
		case *ast.IfStmt:
			if len(x.Body.List) > 0 && x.Else == nil {
				if n := prefixAt(x.Body.List, 0); n > 0 && n == len(x.Body.List) {
					return true, true, exprString(x.Cond)
				}
				// the conditional prefix may live in a helper: if C { inst.writeResult(buf) }
				if len(x.Body.List) == 1 {
					if es, ok := x.Body.List[0].(*ast.ExprStmt); ok {
						if hfd, hb := helperOf(es.X); hfd != nil {
							if p, _, _ := c.firstWriteIsIdentPrefix(hfd, hb, depth+1); p {
								return true, true, exprString(x.Cond)
							}
						}
					}
					if r, ok := x.Body.List[0].(*ast.ReturnStmt); ok && len(r.Results) == 0 && pendingGuard == "" {
						pendingGuard = exprString(x.Cond)
						continue
					}
				}
			}
			// any other if that writes ends the search
			writesHere := false
			ast.Inspect(x, func(m ast.Node) bool {
				if call, ok := m.(*ast.CallExpr); ok && isWriteCall(info, call) != nil {
					writesHere = true
				}
				return true
			})
			if writesHere {
				return false, false, ""
			}
		case *ast.ExprStmt:
			if hfd, hb := helperOf(x.X); hfd != nil {
				p, cond, ct := c.firstWriteIsIdentPrefix(hfd, hb, depth+1)
				if p {
					return p, cond, ct
				}
				// the helper may write nothing on its first statements (a section that only
				// declares locals): a helper that writes something else ends the search
				wr := false
				ast.Inspect(hfd.Body, func(m ast.Node) bool {
					if call, ok := m.(*ast.CallExpr); ok && isWriteCall(c.declPkg[hfd].TypesInfo, call) != nil {
						wr = true
					}
					return true
				})
				if wr {
					return false, false, ""
				}
				continue
			}
			if call, ok := x.X.(*ast.CallExpr); ok && isWriteCall(info, call) != nil {
				return false, false, ""
			}
		case *ast.ReturnStmt:
			if len(x.Results) == 1 {
				if hfd, hb := helperOf(x.Results[0]); hfd != nil {
					return c.firstWriteIsIdentPrefix(hfd, hb, depth+1)
				}
			}
			return false, false, ""
		}
	}
	return false, false, ""
}

func ruleNUMPREFIX(c *Ctx) []Obligation {
	var obs []Obligation
	p := c.pkg(pkgIR)
	info := p.TypesInfo
	scope := p.Types.Scope()
	for _, name := range scope.Names() {
		if !strings.HasPrefix(name, "Inst") && !strings.HasPrefix(name, "Term") {
			continue
		}
		tn, ok := scope.Lookup(name).(*types.TypeName)
		if !ok {
			continue
		}
		n, ok := tn.Type().(*types.Named)
		if !ok {
			continue
		}
		st, ok := n.Underlying().(*types.Struct)
		if !ok {
			continue
		}
		ll := declaredMethodOf(n, "LLString")
		fd := c.funcDecl(ll)
		if fd == nil {
			continue
		}
		embeds := false
		for i := 0; i < st.NumFields(); i++ {
			if st.Field(i).Embedded() && st.Field(i).Name() == "LocalIdent" {
				embeds = true
			}
		}
		voidable := declaredMethodOf(n, "Sig") != nil
		// find the prefix statement: fmt.Fprintf(buf, "%s = ", recv.Ident()) at top level or inside a top-level if
		prefix, conditional, condText := false, false, ""
		// the prefix writes `<ident> = ` first; recognised spellings (n = statements consumed):
		//   fmt.Fprintf(buf, "%s = ", x.Ident())                       n=1
		//   buf.WriteString(x.Ident() + " = ")                         n=1
		//   buf.WriteString(x.Ident()); buf.WriteString(" = ")         n=2
		isIdentCall := func(e ast.Expr) bool {
			return strings.HasSuffix(exprString(unparen(e)), ".Ident()")
		}
		constStr := func(e ast.Expr) (string, bool) {
			if tv := info.Types[e]; tv.Value != nil && tv.Value.Kind() == constant.String {
				return constant.StringVal(tv.Value), true
			}
			return "", false
		}
		writeArg := func(st ast.Stmt) ast.Expr {
			es, ok := st.(*ast.ExprStmt)
			if !ok {
				return nil
			}
			call, ok := es.X.(*ast.CallExpr)
			if !ok || len(call.Args) != 1 {
				return nil
			}
			if se, ok := unparen(call.Fun).(*ast.SelectorExpr); ok && se.Sel.Name == "WriteString" {
				return call.Args[0]
			}
			return nil
		}
		prefixLen := func(list []ast.Stmt, i int) int {
			if es, ok := list[i].(*ast.ExprStmt); ok {
				if call, ok := es.X.(*ast.CallExpr); ok && len(call.Args) >= 3 {
					if f := calleeOf(info, call); f != nil && f.Pkg() != nil && f.Pkg().Path() == "fmt" && f.Name() == "Fprintf" {
						if format, ok := constStr(call.Args[1]); ok && format == "%s = " && isIdentCall(call.Args[2]) {
							return 1
						}
					}
				}
			}
			if a := writeArg(list[i]); a != nil {
				if be, ok := unparen(a).(*ast.BinaryExpr); ok && be.Op == token.ADD && isIdentCall(be.X) {
					if s, ok := constStr(be.Y); ok && s == " = " {
						return 1
					}
				}
				if isIdentCall(a) && i+1 < len(list) {
					if b := writeArg(list[i+1]); b != nil {
						// " = " alone, or fused with what follows (" = alloca")
						if s, ok := constStr(b); ok && strings.HasPrefix(s, " = ") {
							return 2
						}
					}
				}
			}
			return 0
		}
		_ = prefixLen
		prefix, conditional, condText = c.firstWriteIsIdentPrefix(fd, nil, 0)
		o := Obligation{Key: typeKey(n) + " result prefix", Pos: c.pos(fd.Pos()), Verdict: OK}
		switch {
		case embeds && !prefix:
			o.Verdict, o.Detail = VIOL, "the type carries a local identifier (it is numbered and can be used as an operand) but its printer does not start with `<ident> = `: uses print a name that no definition introduces"
		case !embeds && prefix:
			o.Verdict, o.Detail = VIOL, "the printer writes `<ident> = ` for a type that carries no local identifier"
		case prefix && conditional != voidable:
			if voidable {
				o.Verdict, o.Detail = VIOL, "a call-like value whose type can be void prints its `<ident> = ` prefix unconditionally: void calls get a name that the numbering skipped"
			} else {
				o.Verdict, o.Detail = VIOL, "the `<ident> = ` prefix is conditional ("+condText+") for a type that always produces a value"
			}
		case prefix && conditional:
			c2 := strings.ReplaceAll(condText, " ", "")
			if !strings.HasPrefix(c2, "!") || !strings.Contains(c2, ".Type().Equal(types.Void)") {
				o.Verdict, o.Detail = VIOL, "the prefix condition is not `!x.Type().Equal(types.Void)`, the predicate the numbering uses to skip void values: "+condText
			} else {
				o.Detail = "prefix iff result type is not void (same predicate as the numbering skip)"
			}
		case prefix:
			o.Detail = "named value: unconditional `<ident> = ` prefix"
		default:
			o.Detail = "not a value: no prefix, no identifier"
		}
		obs = append(obs, o)
	}
	return obs
}

// ---------------------------------------------------------------------------

func ruleNUMREDERIVE(c *Ctx) []Obligation {
	var obs []Obligation
	info := c.pkg(pkgIR).TypesInfo
	ordN := map[*ast.FuncDecl]int{}
	for _, sc := range c.setIDCalls() {
		ordN[sc.fd]++
		key := funcKey(sc.fn) + " stores the position counter"
		if ordN[sc.fd] > 1 {
			key += fmt.Sprintf(" #%d", ordN[sc.fd])
		}
		o := Obligation{Key: key, Pos: c.pos(sc.call.Pos()), Verdict: OK}
		var obj types.Object
		isFieldCounter := false
		if c.idSpaceOfStore(info, sc.fn, sc.recv) == "metadata" {
			// metadata IDs are not positions: they are drawn from a generator that skips the
			// explicit IDs in use, whatever its spelling (closure, method object, inline loop);
			// MD-ASSIGN holds that generator to account
			o.Detail = "metadata ID drawn from a generator that skips used IDs (MD-ASSIGN)"
			obs = append(obs, o)
			continue
		}
		if call, ok := unparen(sc.arg).(*ast.CallExpr); ok && len(call.Args) == 0 {
			// SetID(nextID()): the ID is drawn from a generator closure directly
			o.Detail = "ID drawn from " + exprString(call) + " (monotone counter that skips used IDs: MD-ASSIGN)"
			obs = append(obs, o)
			continue
		}
		switch a := unparen(sc.arg).(type) {
		case *ast.Ident:
			obj = info.ObjectOf(a)
		case *ast.SelectorExpr:
			// a counter kept in a field of a helper object (method-object form of the traversal)
			if sel, ok := info.Selections[a]; ok && sel.Kind() == types.FieldVal {
				obj, isFieldCounter = info.ObjectOf(a.Sel), true
			}
		}
		if obj == nil {
			o.Verdict, o.Detail = VIOL, "the stored ID is "+exprString(sc.arg)+", not a plain position counter"
			obs = append(obs, o)
			continue
		}
		isCounter := func(e ast.Expr) bool {
			switch x := unparen(e).(type) {
			case *ast.Ident:
				return info.ObjectOf(x) == obj
			case *ast.SelectorExpr:
				return isFieldCounter && info.ObjectOf(x.Sel) == obj
			}
			return false
		}
		// all definitions / updates of the counter
		var inits, incs, others []string
		var incPositions []token.Pos
		scanBodies := []*ast.BlockStmt{sc.fd.Body}
		if isFieldCounter {
			// a field can be written anywhere in the package; it starts at its zero value unless a
			// composite literal initialises it
			scanBodies = nil
			inits = append(inits, "0")
			c.eachFunc(pkgIR, func(_ *packages.Package, fd *ast.FuncDecl, _ *types.Func) {
				scanBodies = append(scanBodies, fd.Body)
				ast.Inspect(fd.Body, func(n ast.Node) bool {
					if kv, ok := n.(*ast.KeyValueExpr); ok {
						if id, ok := kv.Key.(*ast.Ident); ok && info.ObjectOf(id) == obj {
							inits = append(inits, exprString(kv.Value))
						}
					}
					return true
				})
			})
			if len(inits) == 2 && inits[1] == "0" {
				inits = inits[:1]
			}
		}
		for _, body := range scanBodies {
			ast.Inspect(body, func(n ast.Node) bool {
				switch n := n.(type) {
				case *ast.AssignStmt:
					for i, l := range n.Lhs {
						if isCounter(l) {
							rhs := ""
							if len(n.Rhs) == 1 && len(n.Lhs) > 1 {
								rhs = exprString(n.Rhs[0])
							} else if i < len(n.Rhs) {
								rhs = exprString(n.Rhs[i])
							}
							if n.Tok == token.DEFINE {
								inits = append(inits, rhs)
							} else {
								others = append(others, exprString(n.Lhs[i])+" "+n.Tok.String()+" "+rhs)
							}
						}
					}
				case *ast.IncDecStmt:
					if isCounter(n.X) {
						if n.Tok == token.INC {
							incs = append(incs, c.pos(n.Pos()))
							incPositions = append(incPositions, n.Pos())
						} else {
							others = append(others, exprString(n.X)+"--")
						}
					}
				}
				return true
			})
		}
		// the metadata routine draws from a closure `nextID()` instead of a plain counter
		if len(inits) == 1 && strings.HasSuffix(inits[0], "()") {
			o.Detail = "ID drawn from " + inits[0] + " (monotone counter that skips used IDs: MD-ASSIGN)"
			obs = append(obs, o)
			continue
		}
		switch {
		case len(inits) != 1 || (inits[0] != "int64(0)" && inits[0] != "0"):
			o.Verdict, o.Detail = VIOL, fmt.Sprintf("the counter is initialised by %v, not by the constant 0: numbering depends on something other than position", inits)
		case len(others) > 0:
			o.Verdict, o.Detail = VIOL, fmt.Sprintf("the counter is modified other than by ++: %v", others)
		case len(incs) != 1:
			o.Verdict, o.Detail = VIOL, fmt.Sprintf("the counter is advanced at %d places; expected exactly one, next to the store", len(incs))
		default:
			// the ++ is a top-level statement of the same block that (transitively) contains the SetID call, under IsUnnamed
			pm := buildParents(sc.fd.Body)
			var incStmt ast.Node
			ast.Inspect(sc.fd.Body, func(n ast.Node) bool {
				if s, ok := n.(*ast.IncDecStmt); ok && s.Pos() == incPositions[0] {
					incStmt = s
				}
				return true
			})
			blk, _ := pm[incStmt].(*ast.BlockStmt)
			inUnnamed := false
			if is, ok := pm[blk].(*ast.IfStmt); ok && strings.Contains(exprString(is.Cond), "IsUnnamed()") {
				inUnnamed = true
			}
			// guard-clause form: `if !x.IsUnnamed() { return … / continue }` earlier in the same block
			if blk != nil && !inUnnamed {
				for _, st := range blk.List {
					if st.Pos() >= incStmt.Pos() {
						break
					}
					is, ok := st.(*ast.IfStmt)
					if !ok || is.Else != nil || len(is.Body.List) == 0 {
						continue
					}
					ue, ok := unparen(is.Cond).(*ast.UnaryExpr)
					if !ok || ue.Op != token.NOT || !strings.Contains(exprString(ue.X), "IsUnnamed()") {
						continue
					}
					switch last := is.Body.List[len(is.Body.List)-1].(type) {
					case *ast.ReturnStmt:
						inUnnamed = true
					case *ast.BranchStmt:
						if last.Tok == token.CONTINUE {
							inUnnamed = true
						}
					}
				}
			}
			contains := blk != nil && blk.Pos() <= sc.call.Pos() && sc.call.End() <= blk.End()
			if !inUnnamed || !contains {
				o.Verdict, o.Detail = VIOL, "the counter does not advance exactly once per unnamed entity (the ++ is not the unconditional tail of the `if x.IsUnnamed()` branch that stores the ID)"
			} else {
				o.Detail = "id := 0; per unnamed entity: SetID(id) (guarded), id++"
			}
		}
		obs = append(obs, o)
	}
	return obs
}

// ---------------------------------------------------------------------------

// idSpaceOfMethod: which ID space a numbering routine serves — decided by the receiver of
// the method (Func: local, Module: global) or, for a helper (method object, extracted step),
// by the receivers of the methods that call it.
func (c *Ctx) idSpaceOfMethod(fn *types.Func, visiting map[*types.Func]bool, depth int) string {
	if fn == nil || visiting[fn] || depth > 3 {
		return "?"
	}
	visiting[fn] = true
	defer delete(visiting, fn)
	if sig := fn.Type().(*types.Signature); sig.Recv() != nil {
		if n := namedOf(sig.Recv().Type()); n != nil {
			switch n.Obj().Name() {
			case "Func":
				return "local"
			case "Module":
				return "global"
			}
		}
	}
	spaces := map[string]bool{}
	if fn.Pkg() != nil {
		c.eachFunc(fn.Pkg().Path(), func(p *packages.Package, fd *ast.FuncDecl, caller *types.Func) {
			if caller == fn {
				return
			}
			calls := false
			ast.Inspect(fd.Body, func(n ast.Node) bool {
				if call, ok := n.(*ast.CallExpr); ok && calleeOf(p.TypesInfo, call) == fn {
					calls = true
				}
				return true
			})
			if calls {
				spaces[c.idSpaceOfMethod(caller, visiting, depth+1)] = true
			}
		})
	}
	// a step shared by several routines (one assigner object for the local and the global
	// numbering) serves each of their spaces: "global+local"
	set := map[string]bool{}
	for s := range spaces {
		for _, t := range strings.Split(s, "+") {
			set[t] = true
		}
	}
	if len(set) > 0 && !set["?"] {
		return strings.Join(sortedKeys(set), "+")
	}
	return "?"
}

func ruleNUMAUTH(c *Ctx) []Obligation {
	var obs []Obligation
	// authorities: functions (outside the identifier types' own methods) calling SetID with a counter-derived argument
	type auth struct {
		fn    *types.Func
		pos   token.Pos
		space string
	}
	var auths []auth
	for _, path := range []string{pkgIR, pkgASM} {
		c.eachFunc(path, func(p *packages.Package, fd *ast.FuncDecl, fn *types.Func) {
			if fn.Name() == "SetID" {
				return
			}
			info := p.TypesInfo
			defs := collectDefs(info, fd.Body)
			// counters: variables incremented in this function (x++ or *x++)
			counters := map[types.Object]bool{}
			ast.Inspect(fd.Body, func(n ast.Node) bool {
				// the index of a range loop counts positions like an incremented variable does
				if rs, ok := n.(*ast.RangeStmt); ok && rs.Key != nil {
					if _, isMap := info.TypeOf(rs.X).Underlying().(*types.Map); !isMap {
						if id, ok := rs.Key.(*ast.Ident); ok && id.Name != "_" {
							counters[info.ObjectOf(id)] = true
						}
					}
				}
				if s, ok := n.(*ast.IncDecStmt); ok && s.Tok == token.INC {
					e := unparen(s.X)
					if st, ok := e.(*ast.StarExpr); ok {
						e = unparen(st.X)
					}
					if id, ok := e.(*ast.Ident); ok {
						counters[info.ObjectOf(id)] = true
					}
					// a counter kept in a field of a helper object (a.next++)
					if se, ok := e.(*ast.SelectorExpr); ok {
						counters[info.ObjectOf(se.Sel)] = true
					}
				}
				return true
			})
			ast.Inspect(fd.Body, func(n ast.Node) bool {
				call, ok := n.(*ast.CallExpr)
				if !ok {
					return true
				}
				objE, idE, ok := c.idSetCall(info, call)
				if !ok {
					return true
				}
				// counter-derived?
				derived := false
				seen := map[types.Object]bool{}
				var walk func(e ast.Expr)
				walk = func(e ast.Expr) {
					ast.Inspect(e, func(m ast.Node) bool {
						// a function or method of the module that advances a counter (alloc.nextID())
						if call, ok := m.(*ast.CallExpr); ok {
							if g := calleeOf(info, call); g != nil && g.Pkg() != nil && c.isLLVM(g.Pkg().Path()) {
								if gfd := c.funcDecl(g); gfd != nil && gfd.Body != nil {
									ast.Inspect(gfd.Body, func(q ast.Node) bool {
										if s, ok := q.(*ast.IncDecStmt); ok && s.Tok == token.INC {
											derived = true
										}
										return true
									})
								}
							}
						}
						if _, ok := m.(*ast.FuncLit); ok {
							// a closure that advances a counter (nextID)
							ast.Inspect(m, func(q ast.Node) bool {
								if s, ok := q.(*ast.IncDecStmt); ok && s.Tok == token.INC {
									derived = true
								}
								return true
							})
							return false
						}
						if id, ok := m.(*ast.Ident); ok {
							obj := info.Uses[id]
							if obj == nil {
								return true
							}
							if counters[obj] {
								derived = true
							}
							if !seen[obj] {
								seen[obj] = true
								for _, d := range defs[obj] {
									walk(d)
								}
							}
						}
						return true
					})
				}
				walk(idE)
				if !derived {
					return true
				}
				// ID space from the receiver's type
				space := "?"
				t := info.TypeOf(objE)
				switch {
				case isNamed(t, pkgIR, "GlobalIdent"):
					space = "global"
				case isNamed(t, pkgIR, "LocalIdent"):
					space = "local"
				case namedOf(t) != nil && namedOf(t).Obj().Pkg().Path() == pkgMD:
					space = "metadata"
				case types.IsInterface(t):
					// namedVar: decided by the enclosing method's receiver
					space = c.idSpaceOfMethod(fn, map[*types.Func]bool{}, 0)
				default:
					// a value that embeds an identifier (param.SetID(i) with *ir.Param): the space
					// of the identifier type that declares the promoted SetID
					if se, ok := unparen(call.Fun).(*ast.SelectorExpr); ok {
						if sel, ok := info.Selections[se]; ok {
							if m, ok := sel.Obj().(*types.Func); ok {
								if r := m.Type().(*types.Signature).Recv(); r != nil {
									switch {
									case isNamed(r.Type(), pkgIR, "GlobalIdent"):
										space = "global"
									case isNamed(r.Type(), pkgIR, "LocalIdent"):
										space = "local"
									}
								}
							}
						}
					}
				}
				for _, sp := range strings.Split(space, "+") {
					auths = append(auths, auth{fn, call.Pos(), sp})
				}
				return true
			})
		})
	}
	bySpace := map[string][]auth{}
	for _, a := range auths {
		dup := false
		for _, b := range bySpace[a.space] {
			if b.fn == a.fn {
				dup = true
			}
		}
		if !dup {
			bySpace[a.space] = append(bySpace[a.space], a)
		}
	}
	for _, space := range []string{"local", "global", "metadata"} {
		as := bySpace[space]
		var names []string
		for _, a := range as {
			names = append(names, funcKey(a.fn))
		}
		sort.Strings(names)
		if len(as) == 0 {
			obs = append(obs, Obligation{Key: "numbering authority of " + space + " IDs", Verdict: UNDECIDED, Detail: "no function hands out counter-derived " + space + " IDs"})
			continue
		}
		// the printer's routine is the reference authority; every other one is reported on its own
		ref := ""
		for _, a := range as {
			if a.fn.Pkg().Path() == pkgIR {
				ref = funcKey(a.fn)
			}
		}
		sort.SliceStable(as, func(i, j int) bool { return funcKey(as[i].fn) < funcKey(as[j].fn) })
		perPkg := map[string]int{}
		// the order in which a routine visits the module's / function's lists: the fields it
		// ranges over, in source order
		traversal := func(fn *types.Func) string {
			fd := c.funcDecl(fn)
			if fd == nil || fd.Body == nil {
				return "?"
			}
			info := c.declPkg[fd].TypesInfo
			var parts []string
			ast.Inspect(fd.Body, func(n ast.Node) bool {
				if rs, ok := n.(*ast.RangeStmt); ok {
					if se, ok := unparen(rs.X).(*ast.SelectorExpr); ok {
						if sel, ok := info.Selections[se]; ok && sel.Kind() == types.FieldVal {
							parts = append(parts, se.Sel.Name)
						}
					}
				}
				return true
			})
			return strings.Join(parts, ",")
		}
		refTraversal := ""
		for _, a := range as {
			if funcKey(a.fn) == ref {
				refTraversal = traversal(a.fn)
			}
		}
		for _, a := range as {
			o := Obligation{Key: fmt.Sprintf("%s numbers %s IDs", funcKey(a.fn), space), Pos: c.pos(a.pos), Verdict: OK, Detail: "the authority for " + space + " IDs"}
			if funcKey(a.fn) != ref && ref != "" && a.fn.Pkg().Path() == pkgIR && traversal(a.fn) == refTraversal && refTraversal != "" && refTraversal != "?" {
				// a second routine of the printer's own package that visits the same lists in the
				// same order (a renumbering variant of the validating routine) hands out the same numbers
				o.Detail = fmt.Sprintf("numbers %s IDs in the same traversal order as %s (%s)", space, ref, refTraversal)
				obs = append(obs, o)
				continue
			}
			if funcKey(a.fn) != ref && ref != "" {
				// keyed by package and ordinal, not by the function the routine happens to live in:
				// a recorded finding follows the code through a rename or an inlining, and a further
				// authority still gets a key of its own
				pk := shortPkg(a.fn.Pkg().Path())
				perPkg[pk]++
				o.Key = fmt.Sprintf("package %s numbers %s IDs itself (authority #%d besides the printer's)", pk, space, perPkg[pk])
				o.Verdict = VIOL
				o.Detail = fmt.Sprintf("%s is a second numbering authority for %s IDs next to %s, with its own traversal order: when unnamed entities of different kinds interleave, the parser's @N and the printer's @N denote different entities (and the printer's validation of parser-assigned IDs fails)", funcKey(a.fn), space, ref)
			}
			obs = append(obs, o)
		}
	}
	// the parser numbers locals by delegating to the printer's routine
	calls := false
	assign := c.lookupFunc(pkgIR, "Func.AssignIDs")
	c.eachFunc(pkgASM, func(p *packages.Package, fd *ast.FuncDecl, fn *types.Func) {
		ast.Inspect(fd.Body, func(n ast.Node) bool {
			if call, ok := n.(*ast.CallExpr); ok && calleeOf(p.TypesInfo, call) == assign && assign != nil {
				calls = true
			}
			return true
		})
	})
	o := Obligation{Key: "parser delegates local numbering to the printer's routine", Verdict: OK, Detail: "asm calls (*ir.Func).AssignIDs before indexing locals"}
	if !calls {
		o.Verdict, o.Detail = VIOL, "package asm does not call (*ir.Func).AssignIDs: implicit %N in the input are never bound"
	}
	obs = append(obs, o)
	return obs
}

func init() {
	register(&Rule{
		Name:  "NUM-ORDER",
		Doc:   "the numbering routines visit the lists of a module / function in the order the printer emits them (globals, aliases, ifuncs, functions; parameters, then blocks with their instructions and terminator), so the numbers appear in increasing order in the output, as LLVM requires of unnamed values",
		Floor: 2,
		Run:   ruleNUMORDER,
	})
}

// rangeOrder lists, in source order, the receiver fields a function ranges over (top-level and nested).
func rangeOrder(info *types.Info, fd *ast.FuncDecl, fields map[string]bool) []string {
	return rangeOrderCtx(nil, info, fd, fields, map[string]bool{}, 0)
}

// rangeOrderNeedsWrite: set while the printer's side is read off (see rangeOrderCtx).
var rangeOrderNeedsWrite bool

// rangeOrderCtx lists, in execution order, the first range over each of the
// receiver's fields; calls of methods on the same receiver are followed (a
// printer split into section methods).
func rangeOrderCtx(c *Ctx, info *types.Info, fd *ast.FuncDecl, fields map[string]bool, seen map[string]bool, depth int, skip ...*ast.FuncDecl) []string {
	var recv types.Object
	if fd.Recv != nil && len(fd.Recv.List) == 1 && len(fd.Recv.List[0].Names) == 1 {
		recv = info.Defs[fd.Recv.List[0].Names[0]]
	}
	var out []string
	ast.Inspect(fd.Body, func(n ast.Node) bool {
		switch n := n.(type) {
		case *ast.RangeStmt:
			se, ok := unparen(n.X).(*ast.SelectorExpr)
			if !ok {
				return true
			}
			id, ok := unparen(se.X).(*ast.Ident)
			if !ok || info.ObjectOf(id) != recv || !fields[se.Sel.Name] || seen[se.Sel.Name] {
				return true
			}
			// on the printer's side only loops that emit something count: a loop that numbers the
			// locals of every function ahead of the first write is not a section of the output
			if rangeOrderNeedsWrite {
				emits := false
				ast.Inspect(n.Body, func(m ast.Node) bool {
					if call, ok := m.(*ast.CallExpr); ok {
						if isWriteCall(info, call) != nil {
							emits = true
						}
						if se2, ok := unparen(call.Fun).(*ast.SelectorExpr); ok && (strings.HasPrefix(se2.Sel.Name, "Fprint") || strings.HasPrefix(se2.Sel.Name, "Write") || se2.Sel.Name == "LLString" || se2.Sel.Name == "String") {
							emits = true
						}
						if id2, ok := unparen(call.Fun).(*ast.Ident); ok && (strings.HasPrefix(id2.Name, "write") || strings.HasPrefix(id2.Name, "print")) {
							emits = true
						}
					}
					return !emits
				})
				if !emits {
					return true
				}
			}
			seen[se.Sel.Name] = true
			out = append(out, se.Sel.Name)
		case *ast.CallExpr:
			if c == nil || depth >= 2 {
				return true
			}
			se, ok := unparen(n.Fun).(*ast.SelectorExpr)
			if !ok {
				return true
			}
			if id, ok := unparen(se.X).(*ast.Ident); !ok || info.ObjectOf(id) != recv {
				return true
			}
			if hfd := c.funcDecl(calleeOf(info, n)); hfd != nil && hfd != fd && hfd.Recv != nil {
				for _, sk := range skip {
					if sk == hfd {
						return true
					}
				}
				out = append(out, rangeOrderCtx(c, c.declPkg[hfd].TypesInfo, hfd, fields, seen, depth+1, skip...)...)
			}
		}
		return true
	})
	return out
}

func ruleNUMORDER(c *Ctx) []Obligation {
	var obs []Obligation
	info := c.pkg(pkgIR).TypesInfo
	// module level
	fields := map[string]bool{"Globals": true, "Aliases": true, "IFuncs": true, "Funcs": true}
	num := c.funcDecl(c.lookupFunc(pkgIR, "Module.AssignGlobalIDs"))
	wt := c.funcDecl(c.lookupFunc(pkgIR, "Module.WriteTo"))
	o := Obligation{Key: "ir.(*Module).AssignGlobalIDs order = WriteTo order", Verdict: OK}
	if num == nil || wt == nil {
		o.Verdict, o.Detail = UNDECIDED, "AssignGlobalIDs / WriteTo not found"
	} else {
		// the printer's order is read off WriteTo and the section methods it calls — not off the
		// numbering routine, which WriteTo calls first
		a := rangeOrderCtx(c, info, num, fields, map[string]bool{}, 0)
		rangeOrderNeedsWrite = true
		b := rangeOrderCtx(c, info, wt, fields, map[string]bool{}, 0, num)
		rangeOrderNeedsWrite = false
		o.Pos = c.pos(num.Pos())
		if strings.Join(a, ",") != strings.Join(b, ",") {
			o.Verdict = VIOL
			o.Detail = fmt.Sprintf("unnamed globals are numbered in the order %v but printed in the order %v: the printed IDs are not increasing, which LLVM rejects, and a re-parse binds @N to different entities", a, b)
		} else {
			o.Detail = strings.Join(a, ", ")
		}
	}
	obs = append(obs, o)
	// function level: numbering nests Params, Blocks{Insts, Term}; the body printer ranges Blocks and each block prints Insts then Term
	fnum := c.funcDecl(c.lookupFunc(pkgIR, "Func.AssignIDs"))
	blockLL, blockLLFn := c.printerDecl(c.lookupFunc(pkgIR, "Block.LLString"))
	o2 := Obligation{Key: "ir.(*Func).AssignIDs order = print order", Verdict: OK}
	if fnum == nil || blockLL == nil {
		o2.Verdict, o2.Detail = UNDECIDED, "AssignIDs / Block.LLString not found"
	} else {
		o2.Pos = c.pos(fnum.Pos())
		pact, _ := c.numActions()
		sig := c.numSignature(fnum, pact)
		var a []string
		if i, j := strings.Index(sig, "Params{"), strings.Index(sig, "Blocks{"); i >= 0 && j >= 0 {
			if i < j {
				a = []string{"Params", "Blocks"}
			} else {
				a = []string{"Blocks", "Params"}
			}
		}
		numInstBeforeTerm := func() bool {
			i, t := strings.Index(sig, "Insts{"), strings.Index(sig, "act(Term")
			return i >= 0 && t >= 0 && i < t
		}
		// within a block: Insts before Term, in both
		instBeforeTerm := func(fd *ast.FuncDecl) bool {
			var pi, pt token.Pos
			ast.Inspect(fd.Body, func(n ast.Node) bool {
				if se, ok := n.(*ast.SelectorExpr); ok {
					if se.Sel.Name == "Insts" && pi == 0 {
						pi = se.Pos()
					}
					if se.Sel.Name == "Term" && pt == 0 {
						// the nil check of Term in the printer is not output
						pt = se.Pos()
					}
				}
				return true
			})
			if pi != 0 && pt != 0 && pi < pt {
				return true
			}
			// the printer may be split into section methods (writeInsts(buf); writeTerm(buf)): the
			// first read of each field, through same-receiver helpers, at the position of the call
			pi, pt = 0, 0
			for _, e := range c.subjectFields(blockLLFn, -1) {
				if e.Derived || e.Panic {
					continue
				}
				if e.Field == "Insts" && (pi == 0 || e.Pos < pi) {
					pi = e.Pos
				}
				if e.Field == "Term" && (pt == 0 || e.Pos < pt) {
					pt = e.Pos
				}
			}
			return pi != 0 && pt != 0 && pi < pt
		}
		switch {
		case strings.Contains(sig, "exit?") && strings.Index(sig, "exit?") < strings.LastIndex(sig, "act("):
			o2.Verdict, o2.Detail = VIOL, "the numbering routine can return successfully ahead of (part of) its walk under a condition that is not about the value being numbered (walk: "+sig+"): for such functions the values behind the exit — the parameters of a declaration, say — keep ID 0 and are printed under one number"
		case strings.Join(a, ",") != "Params,Blocks":
			o2.Verdict, o2.Detail = VIOL, fmt.Sprintf("locals are numbered in the order %v; LLVM numbers parameters first, then blocks in layout order", a)
		case !numInstBeforeTerm() || !instBeforeTerm(blockLL):
			o2.Verdict, o2.Detail = VIOL, "within a block, instructions must be numbered and printed before the terminator"
		default:
			o2.Detail = "Params, Blocks{Insts, Term} in numbering and printing"
		}
	}
	obs = append(obs, o2)
	return obs
}

package main

import (
	"fmt"
	"go/ast"
	"go/constant"
	"go/token"
	"go/types"
	"golang.org/x/tools/go/ssa"
	"sort"
	"strings"

	"golang.org/x/tools/go/packages"
)

// Literal tables (C09, C10): VSW, LIT-INT-TAB, LIT-FP-TAB. These decide only
// reader/writer table agreement and totality of value switches, not values.

func init() {
	register(&Rule{
		Name:  "VSW",
		Doc:   "a value switch in a printer or literal codec of the ir packages whose default panics is total over what can reach it: a switch over an enumerated kind covers every declared member; a switch over raw runtime data (an integer value) may not have a panicking default at all — the parser can deliver any value there",
		Floor: 2,
		Run:   ruleVSW,
	})
	register(&Rule{
		Name:  "LIT-INT-TAB",
		Doc:   "every spelling class the integer printer can emit — keyword literals, a constant prefix followed by digits in base b, plain decimal — is accepted by the integer reader under a guard with the same literal and parsed in the same base",
		Floor: 3,
		Run:   ruleLITINT,
	})
	register(&Rule{
		Name:  "LIT-FP-TAB",
		Doc:   "for every floating-point kind the hex prefix letter the printer formats and the mewmew/float codec it encodes with are the prefix and codec of one branch of the reader; the printer's kind switch covers all declared kinds; the kinds whose case can fall through to the decimal spelling are exactly the kinds the reader's decimal switch handles",
		Floor: 6,
		Run:   ruleLITFP,
	})
}

// vswExempt: frozen exemptions of VSW keyed by "func switch(tag)".
var vswExempt = map[string]string{
	"ir/constant.NewFloatFromString switch(typ.Kind)":   "16-digit hexadecimal double form: LLVM types such a literal as double and rejects it for x86_fp80, fp128 and ppc_fp128 (`floating point constant does not have type`), so the extended kinds cannot reach this switch in a valid module",
	"ir/constant.NewFloatFromString switch(typ.Kind)#2": "decimal form: LLVM lexes a decimal literal as double and rejects it for x86_fp80, fp128 and ppc_fp128, which must be written in their 0xK/0xL/0xM forms",
}

func ruleVSW(c *Ctx) []Obligation {
	var obs []Obligation
	enumByType := map[string]*enumTables{}
	for _, et := range c.enumTypes() {
		enumByType[typeKey(et.T)] = et
	}
	for _, path := range []string{pkgIR, pkgCONS, pkgMD, pkgTYP, pkgENC, pkgGEP} {
		c.eachFunc(path, func(p *packages.Package, fd *ast.FuncDecl, fn *types.Func) {
			info := p.TypesInfo
			ord := map[string]int{}
			ast.Inspect(fd.Body, func(nd ast.Node) bool {
				sw, ok := nd.(*ast.SwitchStmt)
				if !ok || sw.Tag == nil {
					return true
				}
				var deflt *ast.CaseClause
				var caseVals []constant.Value
				for _, cc := range sw.Body.List {
					cl := cc.(*ast.CaseClause)
					if cl.List == nil {
						deflt = cl
						continue
					}
					for _, e := range cl.List {
						if tv := info.Types[e]; tv.Value != nil {
							caseVals = append(caseVals, tv.Value)
						}
					}
				}
				if deflt == nil || !endsInPanic(deflt.Body) {
					return true
				}
				tagT := info.TypeOf(sw.Tag)
				tagS := exprString(sw.Tag)
				if as, ok := sw.Init.(*ast.AssignStmt); ok && len(as.Rhs) == 1 && exprString(as.Lhs[0]) == tagS {
					tagS = exprString(as.Rhs[0])
				}
				key := fmt.Sprintf("%s switch(%s)", funcKey(fn), tagS)
				ord[key]++
				if ord[key] > 1 {
					key += fmt.Sprintf("#%d", ord[key])
				}
				o := Obligation{Key: key, Pos: c.pos(sw.Pos()), Verdict: OK}
				if et, isEnum := enumByType[typeKey(tagT)]; isEnum {
					var missing []string
					seen := map[int64]bool{}
					for _, d := range et.Declared {
						if seen[d.Val] {
							continue
						}
						seen[d.Val] = true
						covered := false
						for _, v := range caseVals {
							if x, ok := constant.Int64Val(constant.ToInt(v)); ok && x == d.Val {
								covered = true
							}
						}
						if !covered {
							missing = append(missing, d.Name)
						}
					}
					switch {
					case len(missing) == 0:
						o.Detail = fmt.Sprintf("all %d members of %s have a case", len(seen), et.Short)
					case vswExempt[key] != "":
						o.Verdict, o.Detail = EXEMPT, fmt.Sprintf("missing %v — %s", missing, vswExempt[key])
					default:
						o.Verdict = VIOL
						o.Detail = fmt.Sprintf("the switch over %s panics in its default but has no case for %v", et.Short, missing)
					}
				} else if b, ok := tagT.Underlying().(*types.Basic); ok && b.Info()&(types.IsInteger|types.IsString) != 0 {
					if why, ex := vswExempt[key]; ex {
						o.Verdict, o.Detail = EXEMPT, why
					} else {
						o.Verdict = VIOL
						o.Detail = fmt.Sprintf("the switch over the runtime value %s handles %d value(s) and panics for every other: a literal the reader accepts (it performs no range check here) crashes the printer", tagS, len(caseVals))
					}
				} else {
					return true
				}
				obs = append(obs, o)
				return true
			})
		})
	}
	return obs
}

// ---------------------------------------------------------------------------

func ruleLITINT(c *Ctx) []Obligation {
	var obs []Obligation
	identFn := c.lookupFunc(pkgCONS, "Int.Ident")
	readFn := c.lookupFunc(pkgCONS, "NewIntFromString")
	ifd, rfd := c.funcDecl(identFn), c.funcDecl(readFn)
	if ifd == nil || rfd == nil {
		return []Obligation{{Key: "anchors", Verdict: UNDECIDED, Detail: "constant.(*Int).Ident / constant.NewIntFromString not found"}}
	}
	info := c.pkg(pkgCONS).TypesInfo
	strOf := func(e ast.Expr) (string, bool) {
		if tv := info.Types[e]; tv.Value != nil && tv.Value.Kind() == constant.String {
			return constant.StringVal(tv.Value), true
		}
		return "", false
	}
	// reader: accepted keywords (string constants the text is compared with, in a
	// switch case or an == test), prefix conditions with the base of the SetString
	// call they guard, and the base of the unguarded (fall-through) SetString.
	// The shape of the control flow (switch / if chain / a boolean local holding
	// the HasPrefix result) does not matter.
	keywords := map[string]bool{}
	prefixBase := map[string]int64{}
	var fallBase int64 = -1
	var sobj types.Object = readFn.Type().(*types.Signature).Params().At(1)
	// the reader may delegate to a helper of the package (NewIntFromString → parseIntLit):
	// follow the text parameter into the function that actually calls SetString
	for hop := 0; hop < 3; hop++ {
		hasSetString := false
		ast.Inspect(rfd.Body, func(m ast.Node) bool {
			if se, ok := m.(*ast.SelectorExpr); ok && se.Sel.Name == "SetString" {
				hasSetString = true
			}
			return true
		})
		if hasSetString {
			break
		}
		var next *ast.FuncDecl
		var nextObj types.Object
		ast.Inspect(rfd.Body, func(m ast.Node) bool {
			call, ok := m.(*ast.CallExpr)
			if !ok || next != nil {
				return true
			}
			f := calleeOf(info, call)
			if f == nil || f.Pkg() == nil || f.Pkg().Path() != pkgCONS {
				return true
			}
			for i, a := range call.Args {
				if id, ok := unparen(a).(*ast.Ident); ok && info.ObjectOf(id) == sobj {
					if d := c.funcDecl(f); d != nil && d.Body != nil && i < f.Type().(*types.Signature).Params().Len() {
						next, nextObj = d, f.Type().(*types.Signature).Params().At(i)
					}
				}
			}
			return true
		})
		if next == nil {
			break
		}
		rfd, sobj = next, nextObj
	}
	isS := func(e ast.Expr) bool {
		id, ok := unparen(e).(*ast.Ident)
		return ok && info.ObjectOf(id) == sobj
	}
	pm := buildParents(rfd)
	// region guarded by the condition expression e: the body of the if / case clause whose
	// condition contains e, or — when e initialises a boolean local — the bodies of the ifs
	// whose condition mentions that local.
	var regionsOf func(e ast.Node, depth int) []ast.Node
	regionsOf = func(e ast.Node, depth int) []ast.Node {
		var out []ast.Node
		child := e
		for p := pm[e]; p != nil; child, p = p, pm[p] {
			switch p := p.(type) {
			case *ast.IfStmt:
				if child == ast.Node(p.Cond) {
					return append(out, p.Body)
				}
			case *ast.CaseClause:
				for _, l := range p.List {
					if child == ast.Node(l) {
						return append(out, p)
					}
				}
			case *ast.AssignStmt:
				if depth < 2 && len(p.Lhs) == 1 && len(p.Rhs) == 1 && child == ast.Node(p.Rhs[0]) {
					if id, ok := p.Lhs[0].(*ast.Ident); ok {
						obj := info.ObjectOf(id)
						ast.Inspect(rfd.Body, func(m ast.Node) bool {
							if u, ok := m.(*ast.Ident); ok && u != id && info.ObjectOf(u) == obj {
								if _, isIf := pm[u].(*ast.IfStmt); isIf || true {
									out = append(out, regionsOf(u, depth+1)...)
								}
							}
							return true
						})
					}
					return out
				}
			case *ast.BlockStmt, *ast.FuncDecl:
				return out
			}
		}
		return out
	}
	setStringBases := func(n ast.Node) []int64 {
		var bases []int64
		ast.Inspect(n, func(m ast.Node) bool {
			if call, ok := m.(*ast.CallExpr); ok && len(call.Args) == 2 {
				if se, ok := unparen(call.Fun).(*ast.SelectorExpr); ok && se.Sel.Name == "SetString" {
					if tv := info.Types[call.Args[1]]; tv.Value != nil {
						if b, ok := constant.Int64Val(constant.ToInt(tv.Value)); ok {
							bases = append(bases, b)
						}
					}
				}
			}
			return true
		})
		return bases
	}
	var prefixRegions []ast.Node
	ast.Inspect(rfd.Body, func(nd ast.Node) bool {
		switch nd := nd.(type) {
		case *ast.SwitchStmt:
			if nd.Tag != nil && isS(nd.Tag) {
				for _, cc := range nd.Body.List {
					for _, e := range cc.(*ast.CaseClause).List {
						if k, ok := strOf(e); ok {
							keywords[k] = true
						}
					}
				}
			}
		case *ast.BinaryExpr:
			if nd.Op == token.EQL {
				if k, ok := strOf(nd.Y); ok && isS(nd.X) {
					keywords[k] = true
				} else if k, ok := strOf(nd.X); ok && isS(nd.Y) {
					keywords[k] = true
				}
			}
		case *ast.CallExpr:
			if len(nd.Args) == 2 && isPkgFunc(calleeOf(info, nd), "strings", "HasPrefix") && isS(nd.Args[0]) {
				if pfx, ok := strOf(nd.Args[1]); ok {
					for _, r := range regionsOf(nd, 0) {
						prefixRegions = append(prefixRegions, r)
						for _, b := range setStringBases(r) {
							if old, has := prefixBase[pfx]; has && old != b {
								prefixBase[pfx] = -2 // conflicting bases under one prefix
							} else if !has {
								prefixBase[pfx] = b
							}
						}
					}
				}
			}
		}
		return true
	})
	// fall-through: SetString calls outside every prefix region
	ast.Inspect(rfd.Body, func(m ast.Node) bool {
		for _, r := range prefixRegions {
			if m == r {
				return false
			}
		}
		if call, ok := m.(*ast.CallExpr); ok && len(call.Args) == 2 {
			if se, ok := unparen(call.Fun).(*ast.SelectorExpr); ok && se.Sel.Name == "SetString" {
				if tv := info.Types[call.Args[1]]; tv.Value != nil {
					if b, ok := constant.Int64Val(constant.ToInt(tv.Value)); ok {
						fallBase = b
					}
				}
			}
		}
		return true
	})
	// printer: every return expression
	n := 0
	defs := collectDefs(info, ifd.Body)
	ast.Inspect(ifd.Body, func(nd ast.Node) bool {
		r, ok := nd.(*ast.ReturnStmt)
		if !ok || len(r.Results) != 1 {
			return true
		}
		e := unparen(r.Results[0])
		n++
		o := Obligation{Key: fmt.Sprintf("constant.(*Int).Ident spelling #%d: %s", n, exprString(e)), Pos: c.pos(r.Pos()), Verdict: OK}
		if s, ok := strOf(e); ok {
			if keywords[s] {
				o.Detail = fmt.Sprintf("keyword %q is a case of the reader", s)
			} else {
				o.Verdict, o.Detail = VIOL, fmt.Sprintf("the printer emits the keyword %q, which the reader does not recognise (it would be parsed as a number and fail)", s)
			}
		} else if pfx, okp, verbBase, parts := spellingParts(info, defs, e); parts != nil {
			var base int64 = verbBase
			narrowed := ""
			for _, part := range parts {
				ast.Inspect(part, func(m ast.Node) bool {
					call, ok := m.(*ast.CallExpr)
					if !ok {
						return true
					}
					se, ok := unparen(call.Fun).(*ast.SelectorExpr)
					if !ok {
						return true
					}
					if se.Sel.Name == "Text" && len(call.Args) == 1 {
						if tv := info.Types[call.Args[0]]; tv.Value != nil {
							base, _ = constant.Int64Val(constant.ToInt(tv.Value))
						}
					}
					if (se.Sel.Name == "Int64" || se.Sel.Name == "Uint64") && len(call.Args) == 0 && isNamed(info.TypeOf(se.X), "math/big", "Int") {
						narrowed = exprString(call)
					}
					return true
				})
			}
			rb, has := prefixBase[pfx]
			switch {
			case narrowed != "":
				o.Verdict, o.Detail = VIOL, fmt.Sprintf("the spelling is produced from %s: the arbitrary-precision value is narrowed to 64 bits before it is written, so a constant wider than 64 bits loses its upper bits", narrowed)
			case !okp || base < 0:
				o.Verdict, o.Detail = UNDECIDED, "unrecognised spelling expression"
			case !has:
				o.Verdict, o.Detail = VIOL, fmt.Sprintf("the printer emits the prefix %q, for which the reader has no branch", pfx)
			case rb != base:
				o.Verdict, o.Detail = VIOL, fmt.Sprintf("the printer writes digits in base %d after %q, the reader parses them in base %d", base, pfx, rb)
			default:
				o.Detail = fmt.Sprintf("prefix %q, base %d on both sides", pfx, base)
			}
		} else if call, ok := e.(*ast.CallExpr); ok && strings.HasSuffix(exprString(call.Fun), ".String") {
			if fallBase == 10 {
				o.Detail = "decimal on both sides"
			} else {
				o.Verdict, o.Detail = VIOL, fmt.Sprintf("the printer's plain form is decimal, the reader's fallthrough parses base %d", fallBase)
			}
		} else {
			o.Verdict, o.Detail = UNDECIDED, "unrecognised spelling expression"
		}
		obs = append(obs, o)
		return true
	})
	return obs
}

// ---------------------------------------------------------------------------

func ruleLITFP(c *Ctx) []Obligation {
	var obs []Obligation
	identFn := c.lookupFunc(pkgCONS, "Float.Ident")
	readFn := c.lookupFunc(pkgCONS, "NewFloatFromString")
	ifd, rfd := c.funcDecl(identFn), c.funcDecl(readFn)
	if ifd == nil || rfd == nil {
		return []Obligation{{Key: "anchors", Verdict: UNDECIDED, Detail: "constant.(*Float).Ident / constant.NewFloatFromString not found"}}
	}
	info := c.pkg(pkgCONS).TypesInfo
	codecOf := func(n ast.Node, names ...string) string {
		pkg := ""
		ast.Inspect(n, func(m ast.Node) bool {
			call, ok := m.(*ast.CallExpr)
			if !ok {
				return true
			}
			f := calleeOf(info, call)
			if f == nil || f.Pkg() == nil || !strings.HasPrefix(f.Pkg().Path(), pkgFLT+"/") {
				return true
			}
			for _, nm := range names {
				if f.Name() == nm && pkg == "" {
					pkg = strings.TrimPrefix(f.Pkg().Path(), pkgFLT+"/")
				}
			}
			return true
		})
		return pkg
	}
	// reader: HasPrefix(s, "0x?") branches → codec
	readCodec := map[string]string{}
	ast.Inspect(rfd.Body, func(nd ast.Node) bool {
		cl, ok := nd.(*ast.CaseClause)
		if !ok {
			return true
		}
		for _, e := range cl.List {
			if call, ok := e.(*ast.CallExpr); ok && len(call.Args) == 2 && strings.HasSuffix(exprString(call.Fun), "HasPrefix") {
				if tv := info.Types[call.Args[1]]; tv.Value != nil && tv.Value.Kind() == constant.String {
					pfx := constant.StringVal(tv.Value)
					if strings.HasPrefix(pfx, "0x") && len(pfx) == 3 {
						readCodec[pfx[2:]] = codecOf(cl, "NewFromBits")
					}
				}
			}
		}
		return true
	})
	// reader: kinds handled by the decimal switch (the last top-level switch over typ.Kind)
	decimalKinds := map[string]bool{}
	for _, st := range rfd.Body.List {
		if sw, ok := st.(*ast.SwitchStmt); ok && sw.Tag != nil && isKindTag(info, rfd.Body, sw.Tag) {
			decimalKinds = map[string]bool{}
			for _, cc := range sw.Body.List {
				for _, e := range cc.(*ast.CaseClause).List {
					decimalKinds[exprString(e)] = true
				}
			}
		}
	}
	// printer: the kind switch
	var ksw *ast.SwitchStmt
	for _, st := range ifd.Body.List {
		if sw, ok := st.(*ast.SwitchStmt); ok && sw.Tag != nil && isKindTag(info, ifd.Body, sw.Tag) {
			ksw = sw
		}
	}
	if ksw == nil {
		return []Obligation{{Key: "constant.(*Float).Ident kind switch", Verdict: UNDECIDED, Detail: "no switch over the kind at the top level of Ident"}}
	}
	fallKinds := map[string]bool{}
	for _, cc := range ksw.Body.List {
		cl := cc.(*ast.CaseClause)
		if cl.List == nil {
			continue
		}
		for _, e := range cl.List {
			kind := exprString(e)
			// hex prefix constant of this case
			prefix := ""
			ast.Inspect(cl, func(m ast.Node) bool {
				if vs, ok := m.(*ast.ValueSpec); ok && len(vs.Names) == 1 && vs.Names[0].Name == "hexPrefix" && len(vs.Values) == 1 {
					if tv := info.Types[vs.Values[0]]; tv.Value != nil {
						if r, ok := constant.Int64Val(constant.ToInt(tv.Value)); ok {
							prefix = string(rune(r))
						}
					}
				}
				return true
			})
			falls := true
			if len(cl.Body) > 0 {
				switch last := cl.Body[len(cl.Body)-1].(type) {
				case *ast.ReturnStmt:
					falls = false
				case *ast.ExprStmt:
					if endsInPanic([]ast.Stmt{last}) {
						falls = false
					}
				}
			}
			if falls {
				fallKinds[kind] = true
			}
			o := Obligation{Key: "float kind " + kind + " hex form", Pos: c.pos(cl.Pos()), Verdict: OK}
			if prefix == "" {
				// 16-digit double form: the reader's default hex branch
				o.Detail = "16-digit double bit pattern (reader: default hex branch via math.Float64frombits)"
			} else {
				pc := codecOf(cl, "NewFromBig")
				rc, has := readCodec[prefix]
				switch {
				case !has:
					o.Verdict, o.Detail = VIOL, fmt.Sprintf("the printer writes 0x%s… for this kind but the reader has no 0x%s branch", prefix, prefix)
				case pc == "" || rc == "":
					o.Verdict, o.Detail = UNDECIDED, fmt.Sprintf("codec package not identified (printer %q, reader %q)", pc, rc)
				case pc != rc:
					o.Verdict, o.Detail = VIOL, fmt.Sprintf("0x%s is encoded with %s but decoded with %s: the bit pattern is reinterpreted in another format", prefix, pc, rc)
				default:
					o.Detail = fmt.Sprintf("0x%s ↔ %s on both sides", prefix, pc)
				}
			}
			obs = append(obs, o)
		}
	}
	// fall-through (decimal) set agreement
	o := Obligation{Key: "decimal spelling kinds", Pos: c.pos(ksw.Pos()), Verdict: OK}
	a, b := sortedKeys(fallKinds), sortedKeys(decimalKinds)
	sort.Strings(a)
	sort.Strings(b)
	if strings.Join(a, ",") != strings.Join(b, ",") {
		o.Verdict = VIOL
		o.Detail = fmt.Sprintf("the printer can fall through to the decimal spelling for %v, the reader's decimal branch handles %v: a kind in one set only is printed in a form that cannot be read (or panics)", a, b)
	} else {
		o.Detail = "printer fall-through kinds = reader decimal kinds = " + strings.Join(a, ", ")
	}
	obs = append(obs, o)
	obs = append(obs, c.litFPDoubleForm(rfd, info)...)
	obs = append(obs, c.litFPPrecision(rfd, info)...)
	obs = append(obs, c.litFPExactness(ksw, fallKinds, info)...)
	return obs
}

// ieeeSignificand: significand width in bits (including the hidden bit) of the
// IEEE 754 binary interchange formats LLVM's half, float and double denote.
var ieeeSignificand = map[string]int64{"types.FloatKindHalf": 11, "types.FloatKindFloat": 24, "types.FloatKindDouble": 53}

// litFPDoubleForm: LangRef — "constants of types half, float, and double are
// represented using the 16-digit form (which matches the IEEE754
// representation for double)". In the reader's default hexadecimal branch every
// kind case therefore decodes the parsed 64 bits with math.Float64frombits.
func (c *Ctx) litFPDoubleForm(rfd *ast.FuncDecl, info *types.Info) []Obligation {
	var obs []Obligation
	var def *ast.CaseClause
	ast.Inspect(rfd.Body, func(nd ast.Node) bool {
		sw, ok := nd.(*ast.SwitchStmt)
		if !ok || sw.Tag != nil {
			return true
		}
		hasPrefix := false
		var d *ast.CaseClause
		for _, cc := range sw.Body.List {
			cl := cc.(*ast.CaseClause)
			if cl.List == nil {
				d = cl
			}
			for _, e := range cl.List {
				if call, ok := e.(*ast.CallExpr); ok && strings.HasSuffix(exprString(call.Fun), "HasPrefix") {
					hasPrefix = true
				}
			}
		}
		if hasPrefix && d != nil && def == nil {
			def = d
		}
		return true
	})
	if def == nil {
		return []Obligation{{Key: "16-digit double form branch", Verdict: UNDECIDED, Pos: c.pos(rfd.Pos()), Detail: "no default branch in the reader's prefix switch"}}
	}
	// the variable holding the parsed bits
	var bits types.Object
	var bitsCall *ast.CallExpr
	var ksw *ast.SwitchStmt
	for _, st := range def.Body {
		switch st := st.(type) {
		case *ast.AssignStmt:
			if len(st.Rhs) == 1 && len(st.Lhs) == 2 {
				if call, ok := st.Rhs[0].(*ast.CallExpr); ok && isPkgFunc(calleeOf(info, call), "strconv", "ParseUint") {
					if id, ok := st.Lhs[0].(*ast.Ident); ok {
						bits = info.ObjectOf(id)
						bitsCall = call
					}
				}
			}
		case *ast.SwitchStmt:
			if st.Tag != nil && isKindTag(info, rfd.Body, st.Tag) {
				ksw = st
			}
		}
	}
	_ = ksw
	if bits == nil || bitsCall == nil {
		return []Obligation{{Key: "16-digit double form branch", Verdict: UNDECIDED, Pos: c.pos(def.Pos()), Detail: "no `bits, err := strconv.ParseUint(...)` in the default hexadecimal branch"}}
	}
	// value flow on SSA: every use of the parsed bits (through phis, local cells and
	// parameters of functions of this package) is the argument of math.Float64frombits
	o := Obligation{Key: "16-digit form: the parsed bits are decoded only by math.Float64frombits", Pos: c.pos(bitsCall.Pos()), Verdict: OK}
	sf := c.ssaFunc(c.lookupFunc(pkgCONS, "NewFloatFromString"))
	var start ssa.Value
	if sf != nil {
		for _, b := range sf.Blocks {
			for _, in := range b.Instrs {
				if call, ok := in.(*ssa.Call); ok && call.Pos() == bitsCall.Lparen {
					start = call
				}
			}
		}
	}
	if start == nil {
		o.Verdict, o.Detail = UNDECIDED, "SSA call for the ParseUint of the default hexadecimal branch not found"
		return append(obs, o)
	}
	good := 0
	var other []string
	seen := map[ssa.Value]bool{}
	var follow func(v ssa.Value, tupleIdx int)
	follow = func(v ssa.Value, tupleIdx int) {
		if seen[v] {
			return
		}
		seen[v] = true
		refs := v.Referrers()
		if refs == nil {
			return
		}
		for _, r := range *refs {
			switch r := r.(type) {
			case *ssa.Extract:
				if tupleIdx < 0 || r.Index == 0 {
					if r.Index == 0 {
						follow(r, -1)
					}
				}
			case *ssa.Phi:
				follow(r, -1)
			case *ssa.DebugRef, *ssa.MakeInterface:
				// debugging info / formatting of a message
			case *ssa.Store:
				if r.Val == v {
					if a, ok := r.Addr.(*ssa.Alloc); ok {
						for _, ar := range *a.Referrers() {
							if ld, ok := ar.(*ssa.UnOp); ok && ld.Op == token.MUL {
								follow(ld, -1)
							}
						}
					} else {
						other = append(other, c.pos(r.Pos())+": stored into memory")
					}
				}
			case *ssa.Call:
				callee := r.Call.StaticCallee()
				switch {
				case callee != nil && callee.Pkg != nil && callee.Pkg.Pkg.Path() == "math" && callee.Name() == "Float64frombits":
					good++
				case callee != nil && callee.Pkg != nil && callee.Pkg.Pkg.Path() == pkgCONS && len(callee.Params) == len(r.Call.Args):
					for i, a := range r.Call.Args {
						if a == v {
							follow(callee.Params[i], -1)
						}
					}
				default:
					name := "a dynamic call"
					if callee != nil {
						name = callee.String()
					}
					other = append(other, c.pos(r.Pos())+": passed to "+name)
				}
			case *ssa.BinOp:
				if r.Op == token.EQL || r.Op == token.NEQ {
					continue
				}
				other = append(other, fmt.Sprintf("%s: arithmetic %s on the bit pattern", c.pos(r.Pos()), r.Op))
			case *ssa.Convert:
				other = append(other, c.pos(r.Pos())+": converted to "+r.Type().String())
			default:
				other = append(other, fmt.Sprintf("%s: used by %T", c.pos(r.Pos()), r))
			}
		}
	}
	follow(start, 0)
	switch {
	case len(other) > 0:
		sort.Strings(other)
		o.Verdict = VIOL
		o.Detail = "the 16-digit 0x form is the IEEE 754 double bit pattern of the value (LangRef); here the parsed bits are also taken apart by other means — " + strings.Join(other, "; ") + " — so the exponent/significand layout of a double is reinterpreted by hand"
	case good == 0:
		o.Verdict, o.Detail = VIOL, "the parsed bits never reach math.Float64frombits"
	default:
		o.Detail = fmt.Sprintf("%d decode site(s), all math.Float64frombits(bits); no other use of the bit pattern", good)
	}
	return append(obs, o)
}

// litFPDefaultHexClause: the default clause of the reader's prefix switch (the 16-digit form).
func litFPDefaultHexClause(rfd *ast.FuncDecl) *ast.CaseClause {
	var def *ast.CaseClause
	ast.Inspect(rfd.Body, func(nd ast.Node) bool {
		sw, ok := nd.(*ast.SwitchStmt)
		if !ok || sw.Tag != nil {
			return true
		}
		hasPrefix := false
		var d *ast.CaseClause
		for _, cc := range sw.Body.List {
			cl := cc.(*ast.CaseClause)
			if cl.List == nil {
				d = cl
			}
			for _, e := range cl.List {
				if call, ok := e.(*ast.CallExpr); ok && strings.HasSuffix(exprString(call.Fun), "HasPrefix") {
					hasPrefix = true
				}
			}
		}
		if hasPrefix && d != nil && def == nil {
			def = d
		}
		return true
	})
	return def
}

// litFPPrecision: the significand width the reader rounds each kind to. A
// precision site is an integer constant inside a case of one kind that reaches
// SetPrec / big.ParseFloat (as a constant, a local constant, a local variable,
// or an argument of a helper of this package). All sites of a kind agree and
// equal the IEEE significand width; half and float — narrower than the double
// the 16-digit form is decoded as — have a site inside the 16-digit branch.
func (c *Ctx) litFPPrecision(rfd *ast.FuncDecl, info *types.Info) []Obligation {
	var obs []Obligation
	type site struct {
		pos token.Pos
		val int64
	}
	sites := map[string][]site{}
	intConst := func(e ast.Expr) (int64, bool) {
		if tv := info.Types[e]; tv.Value != nil && tv.Value.Kind() == constant.Int {
			return constant.Int64Val(tv.Value)
		}
		return 0, false
	}
	// objects used as an argument of SetPrec / ParseFloat / a function of this package
	precArg := map[types.Object]bool{}
	ast.Inspect(rfd.Body, func(nd ast.Node) bool {
		call, ok := nd.(*ast.CallExpr)
		if !ok {
			return true
		}
		relevant := false
		if se, ok := unparen(call.Fun).(*ast.SelectorExpr); ok && (se.Sel.Name == "SetPrec" || se.Sel.Name == "ParseFloat") {
			relevant = true
		}
		if f := calleeOf(info, call); f != nil && f.Pkg() != nil && f.Pkg().Path() == pkgCONS {
			relevant = true
		}
		if relevant {
			for _, a := range call.Args {
				if id, ok := unparen(a).(*ast.Ident); ok {
					precArg[info.ObjectOf(id)] = true
				}
			}
		}
		return true
	})
	ast.Inspect(rfd.Body, func(nd ast.Node) bool {
		cl, ok := nd.(*ast.CaseClause)
		if !ok || len(cl.List) == 0 {
			return true
		}
		isKindCase := false
		for _, e := range cl.List {
			if strings.Contains(exprString(e), "FloatKind") {
				isKindCase = true
			}
		}
		if !isKindCase {
			return true
		}
		add := func(pos token.Pos, v int64) {
			for _, e := range cl.List {
				sites[exprString(e)] = append(sites[exprString(e)], site{pos, v})
			}
		}
		for _, st := range cl.Body {
			ast.Inspect(st, func(m ast.Node) bool {
				switch m := m.(type) {
				case *ast.CaseClause:
					return false // a nested switch has its own kind cases
				case *ast.ValueSpec:
					for i, nm := range m.Names {
						if i < len(m.Values) && precArg[info.Defs[nm]] {
							if v, ok := intConst(m.Values[i]); ok {
								add(m.Pos(), v)
							}
						}
					}
				case *ast.AssignStmt:
					for i, l := range m.Lhs {
						if id, ok := l.(*ast.Ident); ok && i < len(m.Rhs) && precArg[info.ObjectOf(id)] {
							if v, ok := intConst(m.Rhs[i]); ok {
								add(m.Pos(), v)
							}
						}
					}
				case *ast.CallExpr:
					if se, ok := unparen(m.Fun).(*ast.SelectorExpr); ok {
						switch {
						case se.Sel.Name == "SetPrec" && len(m.Args) == 1:
							if _, isID := unparen(m.Args[0]).(*ast.Ident); !isID {
								if v, ok := intConst(m.Args[0]); ok {
									add(m.Pos(), v)
								}
							}
						case se.Sel.Name == "ParseFloat" && len(m.Args) == 4:
							if _, isID := unparen(m.Args[2]).(*ast.Ident); !isID {
								if v, ok := intConst(m.Args[2]); ok {
									add(m.Pos(), v)
								}
							}
						}
					}
				}
				return true
			})
		}
		return true
	})
	def := litFPDefaultHexClause(rfd)
	for _, kind := range sortedKeys(sites) {
		ss := sites[kind]
		o := Obligation{Key: "float kind " + kind + " reader precision", Pos: c.pos(ss[0].pos), Verdict: OK}
		var vals []string
		agree := true
		for _, x := range ss {
			vals = append(vals, fmt.Sprint(x.val))
			if x.val != ss[0].val {
				agree = false
			}
		}
		want, known := ieeeSignificand[kind]
		switch {
		case !agree:
			o.Verdict, o.Detail = VIOL, fmt.Sprintf("the reader rounds this kind to different significand widths at different sites (%s bits): the hexadecimal and the decimal spelling of one value yield different constants", strings.Join(vals, ", "))
		case known && ss[0].val != want:
			o.Verdict, o.Detail = VIOL, fmt.Sprintf("the reader keeps %d significand bits for this kind; the format has %d (the hidden bit counts): values are rounded to a precision the type does not have", ss[0].val, want)
		default:
			o.Detail = fmt.Sprintf("%d sites, %s bits", len(ss), vals[0])
		}
		obs = append(obs, o)
	}
	// kinds narrower than a double are rounded inside the 16-digit branch
	if def != nil {
		for _, kind := range []string{"types.FloatKindHalf", "types.FloatKindFloat"} {
			o := Obligation{Key: "float kind " + kind + " is rounded to its own precision in the 16-digit branch", Pos: c.pos(def.Pos()), Verdict: VIOL,
				Detail: "the 16-digit form is decoded as a double; for this narrower kind no rounding to the kind's significand width happens in that branch, so a literal with more significant bits than the kind holds is stored unrounded and printing it again takes a second step to settle (the printer truncates what the reader kept)"}
			for _, x := range sites[kind] {
				if def.Pos() <= x.pos && x.pos < def.End() {
					o.Verdict, o.Detail = OK, fmt.Sprintf("%d bits", x.val)
				}
			}
			obs = append(obs, o)
		}
	}
	return obs
}

// litFPExactness: a kind the printer may spell in decimal is guarded by the
// exactness test of that kind's width (float.IsExact16/32/64).
func (c *Ctx) litFPExactness(ksw *ast.SwitchStmt, fallKinds map[string]bool, info *types.Info) []Obligation {
	var obs []Obligation
	want := map[string]string{"types.FloatKindHalf": "IsExact16", "types.FloatKindFloat": "IsExact32", "types.FloatKindDouble": "IsExact64"}
	for _, cc := range ksw.Body.List {
		cl := cc.(*ast.CaseClause)
		for _, e := range cl.List {
			kind := exprString(e)
			if !fallKinds[kind] {
				continue
			}
			o := Obligation{Key: "float kind " + kind + " decimal spelling guarded by exactness test", Pos: c.pos(cl.Pos()), Verdict: OK}
			var used []string
			ast.Inspect(cl, func(m ast.Node) bool {
				id, ok := m.(*ast.Ident)
				if !ok {
					return true
				}
				if f, ok := info.Uses[id].(*types.Func); ok && f.Pkg() != nil && f.Pkg().Path() == pkgFLT && strings.HasPrefix(f.Name(), "IsExact") {
					used = append(used, f.Name())
				}
				return true
			})
			w, known := want[kind]
			switch {
			case !known:
				o.Verdict, o.Detail = UNDECIDED, "no exactness test known for this kind, yet the printer may spell it in decimal"
			case len(used) == 0:
				o.Verdict, o.Detail = VIOL, "the printer can fall through to the decimal spelling of this kind without any float.IsExact test: a value whose shortest decimal is not exact is printed in a form LLVM rejects or reads as another value"
			default:
				for _, u := range used {
					if u != w {
						o.Verdict, o.Detail = VIOL, fmt.Sprintf("the decimal spelling of this kind is guarded by float.%s, the test of another width (want float.%s)", u, w)
					}
				}
				if o.Verdict == OK {
					o.Detail = "float." + w
				}
			}
			obs = append(obs, o)
		}
	}
	return obs
}

// spellingParts splits a spelling expression of the form  "prefix" + <digits>  or
// fmt.Sprintf("prefix%X", <value>)  into its constant prefix and the
// expressions the digits are computed from, following local variables to their
// definitions (so that  hex := c.X.Text(16); return "u0x" + strings.ToUpper(hex)
// is read like the one-line form).
func spellingParts(info *types.Info, defs map[types.Object][]ast.Expr, e ast.Expr) (pfx string, okp bool, verbBase int64, parts []ast.Node) {
	verbBase = -1
	strOf := func(e ast.Expr) (string, bool) {
		if tv := info.Types[e]; tv.Value != nil && tv.Value.Kind() == constant.String {
			return constant.StringVal(tv.Value), true
		}
		return "", false
	}
	var expand func(x ast.Expr, depth int)
	seen := map[types.Object]bool{}
	expand = func(x ast.Expr, depth int) {
		parts = append(parts, x)
		if depth > 4 {
			return
		}
		ast.Inspect(x, func(m ast.Node) bool {
			if id, ok := m.(*ast.Ident); ok {
				if v, ok := info.Uses[id].(*types.Var); ok && !v.IsField() && !seen[v] {
					seen[v] = true
					for _, d := range defs[v] {
						expand(d, depth+1)
					}
				}
			}
			return true
		})
	}
	switch x := e.(type) {
	case *ast.BinaryExpr:
		if x.Op != token.ADD {
			return "", false, -1, nil
		}
		pfx, okp = strOf(x.X)
		expand(x.Y, 0)
		return
	case *ast.CallExpr:
		if f := calleeOf(info, x); f != nil && isPkgFunc(f, "fmt", "Sprintf") && len(x.Args) == 2 {
			if format, ok := strOf(x.Args[0]); ok {
				if i := strings.IndexByte(format, '%'); i >= 0 && i == len(format)-2 {
					pfx, okp = format[:i], true
					switch format[i+1] {
					case 'X', 'x':
						verbBase = 16
					case 'd':
						verbBase = 10
					}
				}
			}
			expand(x.Args[1], 0)
			return
		}
	}
	return "", false, -1, nil
}

// isKindTag: the switch tag is the kind of a floating-point type — `x.Kind`
// itself or a local variable initialised with it.
func isKindTag(info *types.Info, body *ast.BlockStmt, tag ast.Expr) bool {
	tag = unparen(tag)
	if strings.HasSuffix(exprString(tag), ".Kind") {
		return true
	}
	id, ok := tag.(*ast.Ident)
	if !ok {
		return false
	}
	for _, d := range collectDefs(info, body)[info.ObjectOf(id)] {
		if strings.HasSuffix(exprString(unparen(d)), ".Kind") {
			return true
		}
	}
	return false
}

package main

import (
	"fmt"
	"go/ast"
	"go/constant"
	"go/token"
	"go/types"
	"strings"

	"golang.org/x/tools/go/packages"
)

// Literal tables (C09, C10): VSW, LIT-INT-TAB, LIT-FP-TAB. These decide only
// reader/writer table agreement and totality of value switches, not values.

func init() {
	register(&Rule{
		Name:  "VSW",
		Doc:   "a value switch in a printer or literal codec of the ir packages whose default panics is total over what can reach it: a switch over an enumerated kind covers every declared member; a switch over raw runtime data (an integer value) may not have a panicking default at all — the parser can deliver any value there",
		Floor: 2,
		Run:   ruleVSW,
	})
	register(&Rule{
		Name:  "LIT-INT-TAB",
		Doc:   "every spelling class the integer printer can emit — keyword literals, a constant prefix followed by digits in base b, plain decimal — is accepted by the integer reader under a guard with the same literal and parsed in the same base",
		Floor: 3,
		Run:   ruleLITINT,
	})
	register(&Rule{
		Name:  "LIT-FP-TAB",
		Doc:   "for every floating-point kind the hex prefix letter the printer formats and the mewmew/float codec it encodes with are the prefix and codec of one branch of the reader; the printer's kind switch covers all declared kinds; the kinds whose case can fall through to the decimal spelling are exactly the kinds the reader's decimal switch handles",
		Floor: 6,
		Run:   ruleLITFP,
	})
}

// vswExempt: frozen exemptions of VSW keyed by "func switch(tag)".
var vswExempt = map[string]string{}

// vswFloatReaderWhy: the exemption of the floating-point literal reader, stated as a predicate
// rather than by function name so that it follows the code when the reader is split: a switch
// over the kind inside the reader's function set (NewFloatFromString and what it refers to)
// may leave out exactly the extended kinds.
const vswFloatReaderWhy = "16-digit hexadecimal and decimal forms: LLVM lexes such a literal as a double and rejects it for x86_fp80, fp128 and ppc_fp128 (`floating point constant does not have type`), which must be written in their 0xK/0xL/0xM forms — handled by prefix before any switch over the kind — so the extended kinds cannot reach this switch in a valid module"

var vswExtendedKinds = map[string]bool{"FloatKindX86_FP80": true, "FloatKindFP128": true, "FloatKindPPC_FP128": true}

func ruleVSW(c *Ctx) []Obligation {
	var obs []Obligation
	enumByType := map[string]*enumTables{}
	for _, et := range c.enumTypes() {
		enumByType[typeKey(et.T)] = et
	}
	floatReader := map[*ast.FuncDecl]bool{}
	if rf := c.lookupFunc(pkgCONS, "NewFloatFromString"); rf != nil {
		for _, fd := range c.constFuncSet(rf) {
			floatReader[fd] = true
		}
	}
	for _, path := range []string{pkgIR, pkgCONS, pkgMD, pkgTYP, pkgENC, pkgGEP} {
		c.eachFunc(path, func(p *packages.Package, fd *ast.FuncDecl, fn *types.Func) {
			info := p.TypesInfo
			ord := map[string]int{}
			ast.Inspect(fd.Body, func(nd ast.Node) bool {
				sw, ok := nd.(*ast.SwitchStmt)
				if !ok || sw.Tag == nil {
					return true
				}
				var deflt *ast.CaseClause
				var caseVals []constant.Value
				for _, cc := range sw.Body.List {
					cl := cc.(*ast.CaseClause)
					if cl.List == nil {
						deflt = cl
						continue
					}
					for _, e := range cl.List {
						if tv := info.Types[e]; tv.Value != nil {
							caseVals = append(caseVals, tv.Value)
						}
					}
				}
				if deflt == nil || !endsInPanic(deflt.Body) {
					return true
				}
				tagT := info.TypeOf(sw.Tag)
				tagS := exprString(sw.Tag)
				if as, ok := sw.Init.(*ast.AssignStmt); ok && len(as.Rhs) == 1 && exprString(as.Lhs[0]) == tagS {
					tagS = exprString(as.Rhs[0])
				}
				key := fmt.Sprintf("%s switch(%s)", funcKey(fn), tagS)
				ord[key]++
				if ord[key] > 1 {
					key += fmt.Sprintf("#%d", ord[key])
				}
				o := Obligation{Key: key, Pos: c.pos(sw.Pos()), Verdict: OK}
				if et, isEnum := enumByType[typeKey(tagT)]; isEnum {
					var missing []string
					seen := map[int64]bool{}
					for _, d := range et.Declared {
						if seen[d.Val] {
							continue
						}
						seen[d.Val] = true
						covered := false
						for _, v := range caseVals {
							if x, ok := constant.Int64Val(constant.ToInt(v)); ok && x == d.Val {
								covered = true
							}
						}
						if !covered {
							missing = append(missing, d.Name)
						}
					}
					switch {
					case len(missing) == 0:
						o.Detail = fmt.Sprintf("all %d members of %s have a case", len(seen), et.Short)
					case vswExempt[key] != "":
						o.Verdict, o.Detail = EXEMPT, fmt.Sprintf("missing %v — %s", missing, vswExempt[key])
					case floatReader[fd] && allIn(missing, vswExtendedKinds):
						o.Verdict, o.Detail = EXEMPT, fmt.Sprintf("missing %v — %s", missing, vswFloatReaderWhy)
					default:
						o.Verdict = VIOL
						o.Detail = fmt.Sprintf("the switch over %s panics in its default but has no case for %v", et.Short, missing)
					}
				} else if b, ok := tagT.Underlying().(*types.Basic); ok && b.Info()&(types.IsInteger|types.IsString) != 0 {
					if why, ex := vswExempt[key]; ex {
						o.Verdict, o.Detail = EXEMPT, why
					} else {
						o.Verdict = VIOL
						o.Detail = fmt.Sprintf("the switch over the runtime value %s handles %d value(s) and panics for every other: a literal the reader accepts (it performs no range check here) crashes the printer", tagS, len(caseVals))
					}
				} else {
					return true
				}
				obs = append(obs, o)
				return true
			})
		})
	}
	return obs
}

func allIn(xs []string, set map[string]bool) bool {
	for _, x := range xs {
		if !set[x[strings.LastIndex(x, ".")+1:]] {
			return false
		}
	}
	return len(xs) > 0
}

// ---------------------------------------------------------------------------

func ruleLITINT(c *Ctx) []Obligation {
	var obs []Obligation
	identFn := c.lookupFunc(pkgCONS, "Int.Ident")
	readFn := c.lookupFunc(pkgCONS, "NewIntFromString")
	ifd, rfd := c.funcDecl(identFn), c.funcDecl(readFn)
	if ifd == nil || rfd == nil {
		return []Obligation{{Key: "anchors", Verdict: UNDECIDED, Detail: "constant.(*Int).Ident / constant.NewIntFromString not found"}}
	}
	info := c.pkg(pkgCONS).TypesInfo
	strOf := func(e ast.Expr) (string, bool) {
		if tv := info.Types[e]; tv.Value != nil && tv.Value.Kind() == constant.String {
			return constant.StringVal(tv.Value), true
		}
		return "", false
	}
	// reader: accepted keywords (string constants the text is compared with, in a
	// switch case or an == test), prefix conditions with the base of the SetString
	// call they guard, and the base of the unguarded (fall-through) SetString.
	// The shape of the control flow (switch / if chain / a boolean local holding
	// the HasPrefix result) does not matter.
	keywords := map[string]bool{}
	prefixBase := map[string]int64{}
	// a parse site: X.SetString(text, <constant base>), or a call of a function of this package
	// that hands one of its parameters to SetString as the base (parseBigInt(text, 16))
	baseParam := map[*types.Func]int{}
	var parseBase func(call *ast.CallExpr) (int64, bool)
	parseBase = func(call *ast.CallExpr) (int64, bool) {
		constArg := func(i int) (int64, bool) {
			if i < len(call.Args) {
				if tv := info.Types[call.Args[i]]; tv.Value != nil && tv.Value.Kind() == constant.Int {
					return constant.Int64Val(tv.Value)
				}
			}
			return 0, false
		}
		if se, ok := unparen(call.Fun).(*ast.SelectorExpr); ok && se.Sel.Name == "SetString" && len(call.Args) == 2 {
			return constArg(1)
		}
		f := calleeOf(info, call)
		if f == nil || f.Pkg() == nil || f.Pkg().Path() != pkgCONS {
			return 0, false
		}
		idx, known := baseParam[f]
		if !known {
			idx = -1
			if d := c.funcDecl(f); d != nil && d.Body != nil {
				sig := f.Type().(*types.Signature)
				ast.Inspect(d.Body, func(m ast.Node) bool {
					ic, ok := m.(*ast.CallExpr)
					if !ok || len(ic.Args) != 2 {
						return true
					}
					if se, ok := unparen(ic.Fun).(*ast.SelectorExpr); !ok || se.Sel.Name != "SetString" {
						return true
					}
					if id, ok := unparen(ic.Args[1]).(*ast.Ident); ok {
						for i := 0; i < sig.Params().Len(); i++ {
							if info.ObjectOf(id) == sig.Params().At(i) {
								idx = i
							}
						}
					}
					return true
				})
			}
			baseParam[f] = idx
		}
		if idx < 0 {
			return 0, false
		}
		return constArg(idx)
	}
	var fallBase int64 = -1
	var sobj types.Object = readFn.Type().(*types.Signature).Params().At(1)
	// the reader may delegate to a helper of the package (NewIntFromString → parseIntLit):
	// follow the text parameter into the function that actually calls SetString
	for hop := 0; hop < 3; hop++ {
		hasSetString := false
		ast.Inspect(rfd.Body, func(m ast.Node) bool {
			if call, ok := m.(*ast.CallExpr); ok {
				if _, isParse := parseBase(call); isParse {
					hasSetString = true
				}
			}
			return true
		})
		if hasSetString {
			break
		}
		var next *ast.FuncDecl
		var nextObj types.Object
		ast.Inspect(rfd.Body, func(m ast.Node) bool {
			call, ok := m.(*ast.CallExpr)
			if !ok || next != nil {
				return true
			}
			f := calleeOf(info, call)
			if f == nil || f.Pkg() == nil || f.Pkg().Path() != pkgCONS {
				return true
			}
			for i, a := range call.Args {
				if id, ok := unparen(a).(*ast.Ident); ok && info.ObjectOf(id) == sobj {
					if d := c.funcDecl(f); d != nil && d.Body != nil && i < f.Type().(*types.Signature).Params().Len() {
						next, nextObj = d, f.Type().(*types.Signature).Params().At(i)
					}
				}
			}
			return true
		})
		if next == nil {
			break
		}
		rfd, sobj = next, nextObj
	}
	isS := func(e ast.Expr) bool {
		id, ok := unparen(e).(*ast.Ident)
		return ok && info.ObjectOf(id) == sobj
	}
	pm := buildParents(rfd)
	// region guarded by the condition expression e: the body of the if / case clause whose
	// condition contains e, or — when e initialises a boolean local — the bodies of the ifs
	// whose condition mentions that local.
	var regionsOf func(e ast.Node, depth int) []ast.Node
	regionsOf = func(e ast.Node, depth int) []ast.Node {
		var out []ast.Node
		child := e
		for p := pm[e]; p != nil; child, p = p, pm[p] {
			switch p := p.(type) {
			case *ast.IfStmt:
				if child == ast.Node(p.Cond) {
					return append(out, p.Body)
				}
			case *ast.CaseClause:
				for _, l := range p.List {
					if child == ast.Node(l) {
						return append(out, p)
					}
				}
			case *ast.AssignStmt:
				if depth < 2 && len(p.Lhs) == 1 && len(p.Rhs) == 1 && child == ast.Node(p.Rhs[0]) {
					if id, ok := p.Lhs[0].(*ast.Ident); ok {
						obj := info.ObjectOf(id)
						ast.Inspect(rfd.Body, func(m ast.Node) bool {
							if u, ok := m.(*ast.Ident); ok && u != id && info.ObjectOf(u) == obj {
								if _, isIf := pm[u].(*ast.IfStmt); isIf || true {
									out = append(out, regionsOf(u, depth+1)...)
								}
							}
							return true
						})
					}
					return out
				}
			case *ast.BlockStmt, *ast.FuncDecl:
				return out
			}
		}
		return out
	}
	setStringBases := func(n ast.Node) []int64 {
		var bases []int64
		ast.Inspect(n, func(m ast.Node) bool {
			if call, ok := m.(*ast.CallExpr); ok {
				if b, ok := parseBase(call); ok {
					bases = append(bases, b)
				}
			}
			return true
		})
		return bases
	}
	var prefixRegions []ast.Node
	ast.Inspect(rfd.Body, func(nd ast.Node) bool {
		switch nd := nd.(type) {
		case *ast.SwitchStmt:
			if nd.Tag != nil && isS(nd.Tag) {
				for _, cc := range nd.Body.List {
					for _, e := range cc.(*ast.CaseClause).List {
						if k, ok := strOf(e); ok {
							keywords[k] = true
						}
					}
				}
			}
		case *ast.BinaryExpr:
			if nd.Op == token.EQL {
				if k, ok := strOf(nd.Y); ok && isS(nd.X) {
					keywords[k] = true
				} else if k, ok := strOf(nd.X); ok && isS(nd.Y) {
					keywords[k] = true
				}
			}
		case *ast.CallExpr:
			if len(nd.Args) == 2 && isPkgFunc(calleeOf(info, nd), "strings", "HasPrefix") && isS(nd.Args[0]) {
				if pfx, ok := strOf(nd.Args[1]); ok {
					for _, r := range regionsOf(nd, 0) {
						prefixRegions = append(prefixRegions, r)
						for _, b := range setStringBases(r) {
							if old, has := prefixBase[pfx]; has && old != b {
								prefixBase[pfx] = -2 // conflicting bases under one prefix
							} else if !has {
								prefixBase[pfx] = b
							}
						}
					}
				}
			}
		}
		return true
	})
	// fall-through: SetString calls outside every prefix region
	ast.Inspect(rfd.Body, func(m ast.Node) bool {
		for _, r := range prefixRegions {
			if m == r {
				return false
			}
		}
		if call, ok := m.(*ast.CallExpr); ok {
			if b, ok := parseBase(call); ok {
				fallBase = b
			}
		}
		return true
	})
	// printer: every return expression
	n := 0
	var spellings func(ifd *ast.FuncDecl, depth int)
	spellings = func(ifd *ast.FuncDecl, depth int) {
		defs := collectDefs(info, ifd.Body)
		ast.Inspect(ifd.Body, func(nd ast.Node) bool {
			r, ok := nd.(*ast.ReturnStmt)
			if !ok || len(r.Results) != 1 {
				return true
			}
			e := unparen(r.Results[0])
			// a spelling produced by a helper of the package (boolIdent(c.X)): its returns are the spellings
			if call, ok := e.(*ast.CallExpr); ok && depth < 2 {
				if f := calleeOf(info, call); f != nil && f.Pkg() != nil && f.Pkg().Path() == pkgCONS {
					if hfd := c.funcDecl(f); hfd != nil && hfd.Body != nil && hfd != ifd {
						spellings(hfd, depth+1)
						return true
					}
				}
			}
			n++
			o := Obligation{Key: fmt.Sprintf("constant.(*Int).Ident spelling #%d: %s", n, exprString(e)), Pos: c.pos(r.Pos()), Verdict: OK}
			if s, ok := strOf(e); ok {
				if keywords[s] {
					o.Detail = fmt.Sprintf("keyword %q is a case of the reader", s)
				} else {
					o.Verdict, o.Detail = VIOL, fmt.Sprintf("the printer emits the keyword %q, which the reader does not recognise (it would be parsed as a number and fail)", s)
				}
			} else if pfx, okp, verbBase, parts := spellingParts(info, defs, e); parts != nil {
				var base int64 = verbBase
				narrowed := ""
				for _, part := range parts {
					ast.Inspect(part, func(m ast.Node) bool {
						call, ok := m.(*ast.CallExpr)
						if !ok {
							return true
						}
						se, ok := unparen(call.Fun).(*ast.SelectorExpr)
						if !ok {
							return true
						}
						if se.Sel.Name == "Text" && len(call.Args) == 1 {
							if tv := info.Types[call.Args[0]]; tv.Value != nil {
								base, _ = constant.Int64Val(constant.ToInt(tv.Value))
							}
						}
						if (se.Sel.Name == "Int64" || se.Sel.Name == "Uint64") && len(call.Args) == 0 && isNamed(info.TypeOf(se.X), "math/big", "Int") {
							narrowed = exprString(call)
						}
						return true
					})
				}
				rb, has := prefixBase[pfx]
				switch {
				case narrowed != "":
					o.Verdict, o.Detail = VIOL, fmt.Sprintf("the spelling is produced from %s: the arbitrary-precision value is narrowed to 64 bits before it is written, so a constant wider than 64 bits loses its upper bits", narrowed)
				case !okp || base < 0:
					o.Verdict, o.Detail = UNDECIDED, "unrecognised spelling expression"
				case !has:
					o.Verdict, o.Detail = VIOL, fmt.Sprintf("the printer emits the prefix %q, for which the reader has no branch", pfx)
				case rb != base:
					o.Verdict, o.Detail = VIOL, fmt.Sprintf("the printer writes digits in base %d after %q, the reader parses them in base %d", base, pfx, rb)
				default:
					o.Detail = fmt.Sprintf("prefix %q, base %d on both sides", pfx, base)
				}
			} else if call, ok := e.(*ast.CallExpr); ok && strings.HasSuffix(exprString(call.Fun), ".String") {
				if fallBase == 10 {
					o.Detail = "decimal on both sides"
				} else {
					o.Verdict, o.Detail = VIOL, fmt.Sprintf("the printer's plain form is decimal, the reader's fallthrough parses base %d", fallBase)
				}
			} else {
				o.Verdict, o.Detail = UNDECIDED, "unrecognised spelling expression"
			}
			obs = append(obs, o)
			return true
		})
	}
	spellings(ifd, 0)
	return obs
}

// ---------------------------------------------------------------------------

// spellingParts splits a spelling expression of the form  "prefix" + <digits>  or
// fmt.Sprintf("prefix%X", <value>)  into its constant prefix and the
// expressions the digits are computed from, following local variables to their
// definitions (so that  hex := c.X.Text(16); return "u0x" + strings.ToUpper(hex)
// is read like the one-line form).
func spellingParts(info *types.Info, defs map[types.Object][]ast.Expr, e ast.Expr) (pfx string, okp bool, verbBase int64, parts []ast.Node) {
	verbBase = -1
	strOf := func(e ast.Expr) (string, bool) {
		if tv := info.Types[e]; tv.Value != nil && tv.Value.Kind() == constant.String {
			return constant.StringVal(tv.Value), true
		}
		return "", false
	}
	var expand func(x ast.Expr, depth int)
	seen := map[types.Object]bool{}
	expand = func(x ast.Expr, depth int) {
		parts = append(parts, x)
		if depth > 4 {
			return
		}
		ast.Inspect(x, func(m ast.Node) bool {
			if id, ok := m.(*ast.Ident); ok {
				if v, ok := info.Uses[id].(*types.Var); ok && !v.IsField() && !seen[v] {
					seen[v] = true
					for _, d := range defs[v] {
						expand(d, depth+1)
					}
				}
			}
			return true
		})
	}
	switch x := e.(type) {
	case *ast.BinaryExpr:
		if x.Op != token.ADD {
			return "", false, -1, nil
		}
		pfx, okp = strOf(x.X)
		expand(x.Y, 0)
		return
	case *ast.CallExpr:
		if f := calleeOf(info, x); f != nil && isPkgFunc(f, "fmt", "Sprintf") && len(x.Args) == 2 {
			if format, ok := strOf(x.Args[0]); ok {
				if i := strings.IndexByte(format, '%'); i >= 0 && i == len(format)-2 {
					pfx, okp = format[:i], true
					switch format[i+1] {
					case 'X', 'x':
						verbBase = 16
					case 'd':
						verbBase = 10
					}
				}
			}
			expand(x.Args[1], 0)
			return
		}
	}
	return "", false, -1, nil
}

// isKindTag: the switch tag is the kind of a floating-point type — `x.Kind`
// itself or a local variable initialised with it.
func isKindTag(info *types.Info, body *ast.BlockStmt, tag ast.Expr) bool {
	tag = unparen(tag)
	if strings.HasSuffix(exprString(tag), ".Kind") {
		return true
	}
	id, ok := tag.(*ast.Ident)
	if !ok {
		return false
	}
	for _, d := range collectDefs(info, body)[info.ObjectOf(id)] {
		if strings.HasSuffix(exprString(unparen(d)), ".Kind") {
			return true
		}
	}
	return false
}
